"""Bounded stand-in for C13 - fluent programs denote the arrays NumPy would compute, batched or not.

Labelled *bounded*: exhaustive up to the stated bound (plus a seeded random extension), never proof.

How a case works
    * a source node array is built with `from_source` (dims x, y, z; string coordinate labels "x0", "x1", ...;
      source node at flat position k returns the k-th slab of one float64 array holding a fixed permutation of
      the integers 1..N, so every element of every source is distinct and all integer arithmetic is exact);
    * a *program* (a list of fluent operations) is applied to it, one `Action` method call per step;
    * in parallel the same program is applied to a NumPy model `Ref` = (dims, coordinate labels, one ndarray
      whose leading axes are the node axes and whose trailing axes are the internal array axes) - i.e. the
      operation applied directly to the stacked source arrays;
    * after every step: the node array must have the documented dimensions (as a set; the axis position is
      demanded only where the docstring promises one: `keep_dim`, `expand(axis=)`, `transform(axis=)`),
      sizes and - where the operation documents them - coordinate labels;
    * after the last step `Action.graph()` is evaluated by the small reference interpreter below (own
      topological walk from the sinks, payload `func(*args, **kwargs)` with 'inputN' placeholders replaced by
      the parents' values, generator nodes give one value per declared output) and the value at every
      coordinate of the node array must equal the model (shape of the internal array included).

What is deliberately NOT demanded (property silent): coordinate label of a kept (`keep_dim`) dimension, labels
of a dimension introduced through a bare `str`, left-over scalar coordinates, order of sinks, node names, order
of dimensions where no position is documented, shape of the graph (only the values are compared between batch
sizes), error texts.  Reduced dimensions always have size >= 2; no 1-element generators; coordinate labels are
unique; operands of binary operations carry equal coordinate labels.

Numerical tolerance: |got - exp| <= 1e-9 * (|exp| + largest magnitude seen along the program); once a batched
`std` (sqrt of a difference of means) is on the path: 1e-6, and where the exact batched std is <= 1e-6 * magnitude the
formula cancels catastrophically, so that element becomes "no demand" (NaN in the model, propagated by NumPy through
the rest of the program).  Elements where NumPy itself gives NaN carry no demand either.  Programs whose model
leaves the range |v| <= 1e100 are not compared (counted as skipped).

Classes of pre-existing defects (reported, classified, enumeration keeps going):
    'batched-keepdim'        reduce/sum/.../concatenate/mean/std with 1 < batch_size < size and keep_dim=True raises
    'std-keepdim'            Action.std ignores keep_dim in its unbatched branch
    'broadcast-nontrailing'  broadcast against an action whose new dimensions are not all trailing raises / mis-binds

FOUND DEFECTS (current /repo tree, re-found by this harness)
    'join-coord-name'  Action.join(other, (name, values)): the `Coord` form of `dim` (type alias
        `Coord = tuple[str, list]`, everywhere else "new dimension name and coordinate values") builds
        `xr.DataArray(values, name=name)`; xarray.concat names the new dimension after the DataArray's *dims*,
        so the joined node array gets a dimension called 'dim_0' instead of `name`.  Reproducer:
            from earthkit.workflows.fluent import from_source
            f = lambda: 1
            a = from_source([f, f], dims=["x"], coords={"x": [0, 1]})
            b = from_source([f, f], dims=["x"], coords={"x": [0, 1]})
            print(a.join(b, ("member", ["p", "q"])).nodes.dims)   # ('dim_0', 'x'), expected ('member', 'x')
"""
from __future__ import annotations

import functools
import json
import math
import operator
import random
import signal
import threading
import time
import warnings

import numpy as np

CL_VALUE = ("builds a graph whose evaluation gives, at every coordinate of the resulting node array, the value obtained by "
            "applying the same operation directly to the stacked source arrays")
CL_DIMS = "the resulting node array has the dimensions and coordinates the operation documents"
CL_BATCH = ("Choosing any batch size for a batchable reduction (or for mean/std) changes only the shape of the graph, "
            "never the values.")

MAX_NODES = 64      # node positions of a result
MAX_NDIMS = 4       # node dimensions of a result
MAX_ELEMS = 4096    # elements of the model array
RANGE = 1e100

# --------------------------------------------------------------------------------------------------
# payload functions (module level, distinct __name__, pure)
_DATA: dict[str, np.ndarray] = {}


def _source(key):
    return _DATA[key].copy()


def _gsource(key):
    for a in _DATA[key]:
        yield a.copy()


def _zero(k):
    return np.zeros(())


def _affine(x):
    return x * 2.0 + 1.0


def _alt(x):
    return 100.0 - x


def _expo(x):
    return np.abs(x) % 3.0 + 1.0


def _addc(c, x):
    return x + c


def _rsub(c, x):
    return c - x


def _gen2(x):
    yield x + 1.0
    yield x * 3.0


def _wsum(*args):
    tot = args[0] * 1.0
    for i, a in enumerate(args[1:]):
        tot = tot + (i + 2.0) * a
    return tot


def _bsum(*args):
    return functools.reduce(operator.add, args)


_bsum.batchable = True  # type: ignore[attr-defined]


def _genred(*args):
    yield functools.reduce(operator.add, args)
    yield args[0] - args[-1]


def _t_mul(action, c):
    return action.multiply(c)


def _t_sel(action, dim, label):
    return action.select({dim: label}, drop=True)


# --------------------------------------------------------------------------------------------------
def _norm(v):
    if isinstance(v, np.generic):
        v = v.item()
    if isinstance(v, (str, int, float, bool)) or v is None:
        return v
    return str(v)


class Ref:
    """NumPy model of an action: leading axes of `big` are the node axes `dims`, the rest is the internal array."""
    __slots__ = ("dims", "coords", "big", "loose", "scale")

    def __init__(self, dims, coords, big, loose=False, scale=0.0):
        self.dims = tuple(dims)
        self.coords = dict(coords)  # dim -> list of labels | None (labels not documented)
        self.big = big
        self.loose = loose
        with np.errstate(all="ignore"), warnings.catch_warnings():
            warnings.simplefilter("ignore")
            m = float(np.nanmax(np.abs(big))) if big.size else 0.0
        if math.isnan(m):
            m = 0.0
        self.scale = max(scale, m)

    @property
    def nd(self):
        return len(self.dims)

    @property
    def nshape(self):
        return self.big.shape[: len(self.dims)]

    @property
    def ishape(self):
        return self.big.shape[len(self.dims):]

    def new(self, dims, coords, big, loose=None):
        return Ref(dims, coords, big, self.loose if loose is None else (loose or self.loose), self.scale)

    def same(self, big):
        return self.new(self.dims, self.coords, big)

    def transposed(self, dims):
        perm = [self.dims.index(d) for d in dims] + list(range(self.nd, self.big.ndim))
        return self.new(dims, self.coords, np.transpose(self.big, perm))


class Op:
    __slots__ = ("desc", "apply", "ref", "tags", "klass", "batched", "pos", "noop")

    def __init__(self, desc, apply, ref, tags="fm", klass=None, batched=False, pos=(), noop=False):
        self.desc = desc      # JSON-able [name, {params}]
        self.apply = apply    # Action -> Action
        self.ref = ref        # Ref -> Ref
        self.tags = tags      # subset of "fmc": member of the full / medium / compact catalogue
        self.klass = klass    # class of a known defect this instance is allowed to hit
        self.batched = batched
        self.pos = pos        # ((dim, documented axis position), ...)
        self.noop = noop


def _drop_axis(R, k, big, keep, extra_dims=(), extra_coords=None, loose=False):
    """Result of reducing node axis k (already removed from `big`); with keep the axis is re-inserted with size 1."""
    dims = list(R.dims)
    coords = dict(R.coords)
    d = dims[k]
    if keep:
        big = np.expand_dims(big, k)
        coords[d] = None
    else:
        del dims[k]
        coords.pop(d)
    dims = dims + list(extra_dims)
    coords.update(extra_coords or {})
    return R.new(dims, coords, big, loose)


_NPRED = {"sum": np.sum, "mean": np.mean, "std": np.std, "min": np.min, "max": np.max, "prod": np.prod}


def _red(name, R, k, batched_std):
    res = _NPRED[name](R.big, axis=k)
    if batched_std:
        # sqrt(E[x^2] - E[x]^2) cancels catastrophically where the exact std is ~0 relative to the data: the batched value is then
        # numerically meaningless (anything from NaN to sqrt(eps)*scale).  Mark those elements "don't care" (NaN in the model).
        res = np.where(res <= 1e-6 * R.scale, np.nan, res)
    return res


def catalogue(R, t, F):
    """All operation instances applicable to a state with model R; t = program length so far (fresh dim names)."""
    ops = []
    nd, ns, ish = R.nd, R.nshape, R.ishape
    m = len(ish)
    dims = R.dims
    nnodes = int(np.prod(ns)) if nd else 1
    nelem = R.big.size

    def add(*a, **k):
        ops.append(Op(*a, **k))

    # ---- map ------------------------------------------------------------------------------------
    add(["map", {"payload": "_affine (x*2+1)"}], lambda a: a.map(_affine), lambda R: R.same(R.big * 2.0 + 1.0), tags="fmc")

    def ap_arr(a):
        p = np.empty(a.nodes.shape, dtype=object)
        for k, idx in enumerate(np.ndindex(*a.nodes.shape)):
            p[idx] = functools.partial(_addc, float(k + 1))
        return a.map(p)

    add(["map", {"payload": "array of partial(_addc, k+1) per node position k (x+k+1)"}], ap_arr,
        lambda R: R.same(R.big + (np.arange(nnodes, dtype=float) + 1.0).reshape(tuple(ns) + (1,) * m)), tags="fm")
    add(["map", {"payload": "Payload(_rsub, args=(50.0, 'input0')) (50-x)"}], lambda a: a.map(F.Payload(_rsub, (50.0, "input0"))),
        lambda R: R.same(50.0 - R.big), tags="fm")
    if nd < MAX_NDIMS and nnodes * 2 <= MAX_NODES and nelem * 2 <= MAX_ELEMS:
        g = f"g{t}"
        add(["map", {"payload": "_gen2 (yields x+1, x*3)", "yields": [g, [g + "a", g + "b"]]}],
            lambda a: a.map(_gen2, yields=(g, [g + "a", g + "b"])),
            lambda R: R.new(R.dims + (g,), {**R.coords, g: [g + "a", g + "b"]}, np.stack([R.big + 1.0, R.big * 3.0], axis=R.nd)),
            tags="fmc")

    # ---- reductions -----------------------------------------------------------------------------
    for k, d in enumerate(dims):
        size = ns[k]
        if size < 2:
            continue
        for name in ("sum", "mean", "std", "min", "max", "prod"):
            for bs in range(0, size + 2):
                for kd in (False, True):
                    really = 1 < bs < size
                    klass = "batched-keepdim" if (really and kd) else ("std-keepdim" if (name == "std" and kd) else None)
                    tags = "f"
                    if not kd and bs in (0, 2) and (bs == 0 or really):
                        tags += "m"
                    if name == "sum" and kd and bs == 0:
                        tags += "m"
                    if name == "sum" and not kd and (bs == 0 or (bs == 2 and really and k == 0)):
                        tags += "c"
                    if name == "mean" and not kd and bs == 2 and really and k == nd - 1 and nd > 1:
                        tags += "c"
                    if name == "max" and kd and bs == 0 and k == 0:
                        tags += "c"
                    add([name, {"dim": d, "batch_size": bs, "keep_dim": kd}],
                        lambda a, name=name, d=d, bs=bs, kd=kd: getattr(a, name)(dim=d, batch_size=bs, keep_dim=kd),
                        lambda R, name=name, k=k, kd=kd, lo=(name == "std" and really): _drop_axis(R, k, _red(name, R, k, lo), kd, loose=lo),
                        tags=tags, klass=klass, batched=really, pos=((d, k),) if kd else ())

        def wref(R, k=k, kd=False):
            w = (np.arange(R.nshape[k], dtype=float) + 1.0).reshape((-1,) + (1,) * (R.big.ndim - k - 1))
            return _drop_axis(R, k, np.sum(R.big * w, axis=k), kd)

        for kd in (False, True):
            add(["reduce", {"payload": "_wsum (sum_i (i+1)*arg_i, not batchable)", "dim": d, "keep_dim": kd}],
                lambda a, d=d, kd=kd: a.reduce(F.Payload(_wsum), dim=d, keep_dim=kd),
                functools.partial(wref, k=k, kd=kd), tags="fm" if not kd else "f", pos=((d, k),) if kd else ())
        if k == 0:
            add(["reduce", {"payload": "_wsum", "dim": "(default = first dimension)"}], lambda a: a.reduce(_wsum), functools.partial(wref, k=0),
                tags="fm")
        for bs in range(0, size + 2):
            for kd in (False, True):
                really = 1 < bs < size
                add(["reduce", {"payload": "_bsum (a0+a1+..., marked batchable)", "dim": d, "batch_size": bs, "keep_dim": kd}],
                    lambda a, d=d, bs=bs, kd=kd: a.reduce(_bsum, dim=d, batch_size=bs, keep_dim=kd),
                    lambda R, k=k, kd=kd: _drop_axis(R, k, np.sum(R.big, axis=k), kd),
                    tags="f", klass="batched-keepdim" if (really and kd) else None, batched=really, pos=((d, k),) if kd else ())
        r = f"r{t}"
        for kd in (False, True):
            if kd and nd >= MAX_NDIMS:
                continue

            def gref(R, k=k, kd=kd, r=r):
                s = np.sum(R.big, axis=k)
                df = np.take(R.big, 0, axis=k) - np.take(R.big, R.nshape[k] - 1, axis=k)
                big = np.stack([s, df], axis=R.nd - 1)           # node axes (without k) + yielded axis r + internal axes
                dl = list(R.dims)
                co = dict(R.coords)
                if kd:                                            # kept axis goes back to position k
                    big = np.expand_dims(big, k)
                    co[dl[k]] = None
                else:
                    co.pop(dl[k])
                    del dl[k]
                co[r] = [r + "a", r + "b"]
                return R.new(dl + [r], co, big)

            add(["reduce", {"payload": "_genred (yields sum, first-last)", "yields": [r, [r + "a", r + "b"]], "dim": d, "keep_dim": kd}],
                lambda a, d=d, kd=kd, r=r: a.reduce(_genred, yields=(r, [r + "a", r + "b"]), dim=d, keep_dim=kd),
                gref, tags="fm" if not kd else "f", pos=((d, k),) if kd else ())

        # stack / flatten / concatenate
        for ax in range(0, m + 1):
            for kd in (False, True):
                tags = "f"
                if not kd and ax in (0, m):
                    tags += "m"
                if not kd and ax == m and k == 0:
                    tags += "c"
                add(["stack", {"dim": d, "axis": ax, "keep_dim": kd}], lambda a, d=d, ax=ax, kd=kd: a.stack(d, axis=ax, keep_dim=kd),
                    lambda R, k=k, ax=ax, kd=kd: _drop_axis(R, k, np.moveaxis(R.big, k, R.nd - 1 + ax), kd),
                    tags=tags, pos=((d, k),) if kd else ())
            add(["flatten", {"dim": d, "axis": ax}], lambda a, d=d, ax=ax: a.flatten(dim=d, axis=ax),
                lambda R, k=k, ax=ax: _drop_axis(R, k, np.moveaxis(R.big, k, R.nd - 1 + ax), False), tags="f" if 0 < ax < m else "fm")
        if k == 0:
            add(["flatten", {"dim": "(default = first dimension)", "axis": "(default 0)"}], lambda a: a.flatten(),
                lambda R: _drop_axis(R, 0, np.moveaxis(R.big, 0, R.nd - 1), False), tags="f")
        for ax in range(0, m):
            def cref(R, k=k, ax=ax, kd=False):
                tmp = np.moveaxis(R.big, k, R.nd - 1 + ax)
                p = R.nd - 1 + ax
                tmp = tmp.reshape(tmp.shape[:p] + (tmp.shape[p] * tmp.shape[p + 1],) + tmp.shape[p + 2:])
                return _drop_axis(R, k, tmp, kd)

            for bs in range(0, size + 2):
                for kd in (False, True):
                    really = 1 < bs < size
                    tags = "f"
                    if not kd and (bs == 0 or (bs == 2 and really)) and ax in (0, m - 1):
                        tags += "m"
                    if not kd and bs == 0 and ax == 0 and k == nd - 1:
                        tags += "c"
                    add(["concatenate", {"dim": d, "batch_size": bs, "keep_dim": kd, "backend_kwargs": {"axis": ax}}],
                        lambda a, d=d, bs=bs, kd=kd, ax=ax: a.concatenate(d, batch_size=bs, keep_dim=kd, backend_kwargs={"axis": ax}),
                        functools.partial(cref, k=k, ax=ax, kd=kd), tags=tags, klass="batched-keepdim" if (really and kd) else None,
                        batched=really, pos=((d, k),) if kd else ())

    # ---- expand ---------------------------------------------------------------------------------
    if nd < MAX_NDIMS:
        e = f"e{t}"
        for ax in range(m):
            isz = ish[ax]
            for pos in range(0, nd + 1):
                variants = []
                if isz >= 2:
                    variants.append(("full", e, ax, isz, list(range(isz)), None))
                    variants.append(("coord", (e, [f"{e}_{j}" for j in range(2)]), (ax, [isz - 1, 0]), None, [isz - 1, 0], [f"{e}_{j}" for j in range(2)]))
                if isz >= 3:
                    variants.append(("partial", e, ax, isz - 1, list(range(isz - 1)), None))
                for vname, dimarg, idarg, dsz, idxs, labels in variants:
                    if nnodes * len(idxs) > MAX_NODES:
                        continue
                    tags = "f"
                    if pos in (0, nd) and vname != "partial":
                        tags += "m"
                    if vname == "full" and ax == 0 and pos == nd:
                        tags += "c"
                    add(["expand", {"dim": dimarg, "internal_dim": idarg, "dim_size": dsz, "axis": pos}],
                        lambda a, dimarg=dimarg, idarg=idarg, dsz=dsz, pos=pos: a.expand(dimarg, idarg, dim_size=dsz, axis=pos),
                        lambda R, ax=ax, pos=pos, idxs=idxs, labels=labels, e=e: R.new(
                            R.dims[:pos] + (e,) + R.dims[pos:], {**R.coords, e: labels},
                            np.moveaxis(np.take(R.big, idxs, axis=R.nd + ax), R.nd + ax, pos)),
                        tags=tags, pos=((e, pos),))

    # ---- select / iselect -----------------------------------------------------------------------
    for k, d in enumerate(dims):
        size = ns[k]
        labels = R.coords[d]
        cands = []   # (method, criterion (JSON-able), indices kept or int)
        for j in sorted({0, size - 1}):
            cands.append(("iselect", j, j))
            if labels is not None:
                cands.append(("select", labels[j], j))
        if size >= 2:
            lst = [size - 1, 0]
            cands.append(("iselect", lst, lst))
            if labels is not None:
                cands.append(("select", [labels[j] for j in lst], lst))
        if size >= 3:
            cands.append(("iselect", "slice(1, None)", list(range(1, size))))
        for meth, crit, keep in cands:
            for drop in (False, True):
                tags = "f"
                if not drop and (keep == 0 or isinstance(keep, list) and keep == [size - 1, 0]):
                    tags += "m"
                if not drop and meth == "select" and keep == 0 and k == 0:
                    tags += "c"
                if not drop and meth == "iselect" and isinstance(keep, list) and keep == [size - 1, 0] and k == nd - 1:
                    tags += "c"

                def sap(a, meth=meth, d=d, crit=crit, drop=drop):
                    c = slice(1, None) if crit == "slice(1, None)" else (list(crit) if isinstance(crit, list) else crit)
                    return getattr(a, meth)({d: c}, drop=drop)

                def sref(R, k=k, keep=keep):
                    dl = list(R.dims)
                    co = dict(R.coords)
                    if isinstance(keep, list):
                        if co[dl[k]] is not None:
                            co[dl[k]] = [co[dl[k]][j] for j in keep]
                        return R.new(dl, co, np.take(R.big, keep, axis=k))
                    co.pop(dl[k])
                    return R.new(dl[:k] + dl[k + 1:], co, np.take(R.big, keep, axis=k))

                add([meth, {"criteria": {d: crit}, "drop": drop}], sap, sref, tags=tags)

    # ---- join -----------------------------------------------------------------------------------
    def other_of(a, relabel=None):
        nodes = a.nodes
        if relabel is not None:
            d, labs = relabel
            nodes = nodes.assign_coords({d: labs})
        return F.Action(nodes.copy(deep=False)).map(_alt)

    if nd < MAX_NDIMS and nnodes * 2 <= MAX_NODES and nelem * 2 <= MAX_ELEMS:
        j = f"j{t}"
        add(["join", {"other": "Action(self.nodes).map(_alt) (100-x)", "dim": j}], lambda a: a.join(other_of(a), j),
            lambda R: R.new((j,) + R.dims, {**R.coords, j: None}, np.stack([R.big, 100.0 - R.big], axis=0)), tags="fmc")
        add(["join", {"other": "Action(self.nodes).map(_alt) (100-x)", "dim": [j, [j + "a", j + "b"]]}],
            lambda a: a.join(other_of(a), (j, [j + "a", j + "b"])),
            lambda R: R.new((j,) + R.dims, {**R.coords, j: [j + "a", j + "b"]}, np.stack([R.big, 100.0 - R.big], axis=0)),
            tags="fm", klass="join-coord-name")
    if nnodes * 2 <= MAX_NODES and nelem * 2 <= MAX_ELEMS:
        for k, d in enumerate(dims):
            if R.coords[d] is not None and all(isinstance(v, int) and not isinstance(v, bool) for v in R.coords[d]):
                newl = [1000 * (t + 1) + i for i in range(ns[k])]   # keep the label type: xarray would coerce a mixed index
            else:
                newl = [f"o{t}_{i}" for i in range(ns[k])]
            add(["join", {"other": f"Action(self.nodes relabelled {newl} along {d}).map(_alt)" if R.coords[d] is not None else "Action(self.nodes).map(_alt)", "dim": d}],
                lambda a, d=d, newl=newl, has=(R.coords[d] is not None): a.join(other_of(a, (d, newl) if has else None), d),
                lambda R, k=k, newl=newl: R.new(R.dims, {**R.coords, R.dims[k]: (None if R.coords[R.dims[k]] is None else R.coords[R.dims[k]] + newl)},
                                                np.concatenate([R.big, 100.0 - R.big], axis=k)),
                tags="fm" if k == 0 else "f")

    # ---- arithmetic -----------------------------------------------------------------------------
    for name, c, fn in (("add", 3.0, np.add), ("subtract", 1.0, np.subtract), ("multiply", 2.0, np.multiply), ("divide", 4.0, np.divide),
                        ("power", 2.0, np.power)):
        add([name, {"other": c}], lambda a, name=name, c=c: getattr(a, name)(c), lambda R, fn=fn, c=c: R.same(fn(R.big, c)),
            tags="fmc" if name == "multiply" else "fm")
        if name == "power":
            add([name, {"other": "Action(self.nodes).map(_expo) (|x| % 3 + 1)"}],
                lambda a, name=name: getattr(a, name)(F.Action(a.nodes.copy(deep=False)).map(_expo)),
                lambda R, fn=fn: R.same(fn(R.big, np.abs(R.big) % 3.0 + 1.0)), tags="fm")
        else:
            add([name, {"other": "Action(self.nodes).map(_alt) (100-x)"}],
                lambda a, name=name: getattr(a, name)(F.Action(a.nodes.copy(deep=False)).map(_alt)),
                lambda R, fn=fn: R.same(fn(R.big, 100.0 - R.big)), tags="fmc" if name == "subtract" else "fm")
            if nd >= 2 and name in ("subtract", "divide"):
                # the second operand lists the SAME dimensions in another order: operands are matched by dimension name, not by position
                add([name, {"other": "Action(self.nodes transposed to the reversed dimension order).map(_alt) (100-x)"}],
                    lambda a, name=name: getattr(a, name)(F.Action(a.nodes.copy(deep=False).transpose(*reversed(a.nodes.dims))).map(_alt)),
                    lambda R, fn=fn: R.same(fn(R.big, 100.0 - R.big)), tags="f")

    # ---- broadcast ------------------------------------------------------------------------------
    if nd < MAX_NDIMS and nnodes * 2 <= MAX_NODES and nelem * 2 <= MAX_ELEMS:
        b = f"b{t}"
        for pos in sorted({nd, 0, 1 if nd >= 2 else 0}, reverse=True):
            odims = list(dims[:pos]) + [b] + list(dims[pos:])

            def bap(a, odims=odims, b=b):
                shape = tuple(2 if d == b else a.nodes.sizes[d] for d in odims)
                p = np.empty(shape, dtype=object)
                for k, idx in enumerate(np.ndindex(*shape)):
                    p[idx] = functools.partial(_zero, k)
                coords = {d: ([b + "a", b + "b"] if d == b else a.nodes.coords[d].values) for d in odims if d == b or d in a.nodes.coords}
                return a.broadcast(F.from_source(p, dims=odims, coords=coords))

            def bref(R, pos=pos, b=b):
                big = np.repeat(np.expand_dims(R.big, pos), 2, axis=pos)
                return R.new(R.dims[:pos] + (b,) + R.dims[pos:], {**R.coords, b: [b + "a", b + "b"]}, big)

            add(["broadcast", {"other": f"fresh source action with dims {odims} (sizes/labels of self, {b}: 2)"}], bap, bref,
                tags="fmc" if pos == nd else "f", klass=None if pos == nd else "broadcast-nontrailing")

        if nd >= 2:
            # the other action lists the receiver's dimensions in ANOTHER order (reversed), new dimension trailing: the result follows the
            # other's order and the node at a coordinate is still the receiver's node at that coordinate
            rdims = list(reversed(dims))
            odims = rdims + [b]

            def bap2(a, odims=odims, b=b):
                shape = tuple(2 if d == b else a.nodes.sizes[d] for d in odims)
                p = np.empty(shape, dtype=object)
                for k, idx in enumerate(np.ndindex(*shape)):
                    p[idx] = functools.partial(_zero, k)
                coords = {d: ([b + "a", b + "b"] if d == b else a.nodes.coords[d].values) for d in odims if d == b or d in a.nodes.coords}
                return a.broadcast(F.from_source(p, dims=odims, coords=coords))

            def bref2(R, b=b, nd=nd):
                big = np.transpose(R.big, tuple(reversed(range(nd))) + tuple(range(nd, R.big.ndim)))
                big = np.repeat(np.expand_dims(big, nd), 2, axis=nd)
                return R.new(tuple(reversed(R.dims)) + (b,), {**R.coords, b: [b + "a", b + "b"]}, big)

            add(["broadcast", {"other": f"fresh source action with dims {odims} (the receiver's dimensions reversed, {b}: 2 trailing)"}], bap2, bref2, tags="f")

    # ---- transform ------------------------------------------------------------------------------
    if nd < MAX_NDIMS and nnodes * 2 <= MAX_NODES and nelem * 2 <= MAX_ELEMS:
        tn = f"t{t}"
        for pos in range(0, nd + 1):
            for dimarg, labels in ((tn, None), ((tn, [tn + "a", tn + "b"]), [tn + "a", tn + "b"])):
                tags = "f"
                if pos in (0, nd):
                    tags += "m"
                if pos == 0 and labels is not None:
                    tags += "c"
                add(["transform", {"func": "_t_mul (action.multiply(c))", "params": [[2.0], [5.0]], "dim": dimarg, "axis": pos}],
                    lambda a, dimarg=dimarg, pos=pos: a.transform(_t_mul, [(2.0,), (5.0,)], dimarg, axis=pos),
                    lambda R, pos=pos, labels=labels, tn=tn: R.new(R.dims[:pos] + (tn,) + R.dims[pos:], {**R.coords, tn: labels},
                                                                    np.stack([R.big * 2.0, R.big * 5.0], axis=pos)),
                    tags=tags, pos=((tn, pos),))
    if nd >= 1:
        tn = f"t{t}"
        for k, d in enumerate(dims):
            labels = R.coords[d]
            if labels is None or ns[k] < 2:
                continue
            pick = [ns[k] - 1, 0]
            for pos in sorted({0, nd - 1}):
                add(["transform", {"func": "_t_sel (action.select({dim: label}, drop=True))", "params": [[d, labels[j]] for j in pick],
                                   "dim": [tn, [tn + "a", tn + "b"]], "axis": pos}],
                    lambda a, d=d, labels=labels, pick=pick, pos=pos, tn=tn: a.transform(
                        _t_sel, [(d, labels[j]) for j in pick], (tn, [tn + "a", tn + "b"]), axis=pos),
                    lambda R, k=k, pick=pick, pos=pos, tn=tn: R.new(
                        (R.dims[:k] + R.dims[k + 1:])[:pos] + (tn,) + (R.dims[:k] + R.dims[k + 1:])[pos:],
                        {**{dd: v for dd, v in R.coords.items() if dd != R.dims[k]}, tn: [tn + "a", tn + "b"]},
                        np.stack([np.take(R.big, j, axis=k) for j in pick], axis=pos)),
                    tags="fm" if (k == 0 and pos == 0) else "f", pos=((tn, pos),))
    return ops


# --------------------------------------------------------------------------------------------------
# reference interpreter
class Cache:
    """node object -> {output name: value}; layered so that a DFS can drop what a finished subtree computed"""

    def __init__(self):
        self.layers = [{}]

    def push(self):
        self.layers.append({})

    def pop(self):
        self.layers.pop()

    def get(self, node):
        k = id(node)
        for layer in reversed(self.layers):
            hit = layer.get(k)
            if hit is not None and hit[0] is node:
                return hit[1]
        return None

    def put(self, node, val):
        self.layers[-1][id(node)] = (node, val)


def evaluate(action, cache, F):
    """Evaluate action.graph() with an own topological walk; return object array of the values at every coordinate."""
    graph = action.graph()
    todo = list(graph.sinks)
    while todo:
        node = todo[-1]
        if cache.get(node) is not None:
            todo.pop()
            continue
        missing = [o.parent for o in node.inputs.values() if cache.get(o.parent) is None]
        if missing:
            todo.extend(missing)
            if len(todo) > 100000:
                raise RuntimeError("cycle in graph")
            continue
        todo.pop()
        func, args, kwargs = node.payload
        real = []
        for a in args:
            if isinstance(a, str) and a in node.inputs:
                src = node.inputs[a]
                real.append(cache.get(src.parent)[src.name])
            else:
                real.append(a)
        res = func(*real, **kwargs)
        outs = list(node.outputs)
        if outs == [F.BaseNode.DEFAULT_OUTPUT]:
            cache.put(node, {outs[0]: res})
        else:
            vals = list(res)
            if len(vals) != len(outs):
                raise RuntimeError(f"generator node yields {len(vals)} values for {len(outs)} outputs")
            cache.put(node, dict(zip(outs, vals)))
    out = np.empty(action.nodes.shape, dtype=object)
    data = action.nodes.data
    for idx in np.ndindex(*action.nodes.shape):
        e = data[idx]
        if isinstance(e, F.Output):
            val = cache.get(e.parent)
            if val is None:
                raise RuntimeError("a node of the node array is not reachable from the graph's sinks")
            out[idx] = val[e.name]
        else:
            val = cache.get(e)
            if val is None:
                raise RuntimeError("a node of the node array is not reachable from the graph's sinks")
            out[idx] = val[F.BaseNode.DEFAULT_OUTPUT]
    return out


class _F:
    """lazy handle on the modules under test (imported inside run so that EKW_REPO_SRC is honoured by the caller)"""

    def __init__(self):
        import earthkit.workflows.fluent as fl
        from earthkit.workflows.graph import Node as BaseNode, Output
        self.Action, self.Payload, self.Node, self.from_source = fl.Action, fl.Payload, fl.Node, fl.from_source
        self.BaseNode, self.Output = BaseNode, Output


# --------------------------------------------------------------------------------------------------
def perm_data(shape):
    n = int(np.prod(shape)) if len(shape) else 1
    step = max(1, int(n * 0.618))
    while math.gcd(step, n) != 1:
        step += 1
    return ((np.arange(n) * step) % n + 1).astype(float).reshape(shape)


def make_source(F, cfg, tag):
    """cfg = (node shape, internal shape, kind); kind 'plain' or 'gen' (last node dimension yielded by generator sources)"""
    nshape, ishape, kind = cfg
    big = perm_data(tuple(nshape) + tuple(ishape))
    names = "xyz"[: len(nshape)]
    dims = list(names)
    coords = {d: [f"{d}{i}" for i in range(s)] for d, s in zip(dims, nshape)}
    if kind == "plain":
        p = np.empty(nshape, dtype=object)
        for idx in np.ndindex(*nshape):
            key = f"{tag}:{idx}"
            _DATA[key] = big[idx]
            p[idx] = functools.partial(_source, key)
        action = F.from_source(p, dims=dims, coords=coords)
    else:
        outer = tuple(nshape[:-1])
        p = np.empty(outer, dtype=object)
        for idx in np.ndindex(*outer):
            key = f"{tag}:{idx}"
            _DATA[key] = big[idx]
            p[idx] = functools.partial(_gsource, key)
        yd = dims[-1]
        action = F.from_source(p, yields=(yd, coords[yd]), dims=dims[:-1], coords={d: coords[d] for d in dims[:-1]})
    return action, Ref(dims, coords, big)


class _CaseTimeout(Exception):
    pass


class _time_limit:
    """Per-case watchdog (a changed tree may loop for ever); no-op off the main thread or when somebody else owns the timer."""

    def __init__(self, seconds):
        self.seconds = seconds
        self.armed = False

    def __enter__(self):
        try:
            if threading.current_thread() is threading.main_thread() and signal.getitimer(signal.ITIMER_REAL)[0] == 0.0:
                self.old = signal.signal(signal.SIGALRM, self._fire)
                signal.setitimer(signal.ITIMER_REAL, self.seconds)
                self.armed = True
        except (ValueError, OSError, AttributeError):
            self.armed = False
        return self

    @staticmethod
    def _fire(signum, frame):
        raise _CaseTimeout()

    def __exit__(self, *exc):
        if self.armed:
            signal.setitimer(signal.ITIMER_REAL, 0)
            signal.signal(signal.SIGALRM, self.old)
        return False


CASE_SECONDS = 20.0


class Stats:
    def __init__(self, src_desc):
        self.cases = 0
        self.nontrivial = 0
        self.skipped_range = 0
        self.known = {}
        self.failures = []
        self.seen = set()
        self.keys = set()
        self.samples = []
        self.src_desc = src_desc
        self.nfail = 0
        self.late = []        # programs kept for a second evaluation once every other program of this source has been built (see run_space)
        self.late_keys = {}

    def fail(self, ob, klass, prog, observed, clause):
        self.nfail += 1
        if klass != "other":
            self.known[klass] = self.known.get(klass, 0) + 1
        if (ob, klass) in self.seen or len(self.failures) >= 20:
            return
        self.seen.add((ob, klass))
        self.failures.append({"obligation": ob, "inputs": {"source": self.src_desc, "program": prog}, "observed": str(observed)[:300],
                              "clause": clause, "class": klass})


def _close(got, exp, R):
    with np.errstate(all="ignore"):
        tol = 1e-6 if R.loose else 1e-9
        bound = tol * (np.abs(exp) + R.scale) + 1e-300
        diff = np.abs(got - exp)
        ok = (diff <= bound) | (got == exp) | np.isnan(exp)   # NaN in the model = no demand (see _red) / NaN by NumPy's own rules
        return bool(np.all(ok))


def step(F, nodes, R, op, prog, stats, cache, evaluate_it=True):
    """Run one case: apply `op` to a fresh Action over `nodes`, compare with the model.  Returns (nodes', R') or None."""
    klass = op.klass or "other"
    stats.cases += 1
    try:
        with np.errstate(all="ignore"), warnings.catch_warnings():
            warnings.simplefilter("ignore")
            exp = op.ref(R)
    except Exception as e:  # noqa - a bug of this harness, never of the code under test: make it loud
        raise RuntimeError(f"harness model failed on {prog}: {e!r}") from e
    with np.errstate(all="ignore"):
        inrange = not bool(np.any(np.isinf(exp.big))) and exp.scale <= RANGE
    a = F.Action(nodes.copy(deep=False))
    try:
        with _time_limit(CASE_SECONDS):
            res = op.apply(a)
    except _CaseTimeout:
        stats.fail("C13/build-raises", klass, prog, f"the fluent call did not return within {CASE_SECONDS} s", CL_VALUE)
        return None
    except Exception as e:  # noqa
        stats.fail("C13/build-raises", klass, prog, f"{type(e).__name__}: {e}", CL_VALUE)
        return None
    rn = res.nodes
    rdims = tuple(str(d) for d in rn.dims)
    if len(set(rdims)) != len(rdims) or set(rdims) != set(exp.dims):
        stats.fail("C13/dims", klass, prog, f"dims {rdims}, documented {exp.dims}", CL_DIMS)
        return None
    for d, p in op.pos:
        if rdims.index(d) != p:
            stats.fail("C13/dim-position", klass, prog, f"dimension {d} at axis {rdims.index(d)} of {rdims}, documented axis {p}", CL_DIMS)
            return None
    exp = exp.transposed(rdims)
    if tuple(rn.shape) != tuple(exp.nshape):
        stats.fail("C13/dims", klass, prog, f"sizes {dict(zip(rdims, rn.shape))}, documented {dict(zip(rdims, exp.nshape))}", CL_DIMS)
        return None
    for d in rdims:
        want = exp.coords[d]
        have = [_norm(v) for v in rn.coords[d].values] if d in rn.coords else None
        if want is None:
            exp.coords[d] = have if (have is not None and len(set(map(repr, have))) == len(have)) else None
        elif have != want:
            stats.fail("C13/coords", klass, prog, f"coordinate {d} = {have}, documented {want}", CL_DIMS)
            return None
    if not inrange:
        stats.skipped_range += 1
        return None
    if evaluate_it:
        if not op.noop:
            stats.nontrivial += 1
        try:
            with warnings.catch_warnings():
                warnings.simplefilter("ignore")
                with np.errstate(all="ignore"), _time_limit(CASE_SECONDS):
                    got = evaluate(res, cache, F)
        except _CaseTimeout:
            stats.fail("C13/eval-raises", klass, prog, f"evaluation of the graph did not finish within {CASE_SECONDS} s", CL_VALUE)
            return None
        except Exception as e:  # noqa
            stats.fail("C13/eval-raises", klass, prog, f"{type(e).__name__}: {e}", CL_VALUE)
            return None
        ob = "C13/batched-values" if op.batched else "C13/values"
        cl = CL_BATCH if op.batched else CL_VALUE
        for idx in np.ndindex(*rn.shape):
            g = np.asarray(got[idx])
            x = exp.big[idx]
            if g.dtype == object or g.shape != x.shape:
                stats.fail(ob, klass, prog, f"at {dict(zip(rdims, idx))}: array of shape {g.shape}, NumPy gives shape {x.shape}", cl)
                return None
            if not _close(g.astype(float), x, exp):
                stats.fail(ob, klass, prog, f"at {dict(zip(rdims, idx))}: {g.tolist()}, NumPy gives {x.tolist()}", cl)
                return None
        if not op.noop and klass == "other":
            lk = (len(prog), str(op.desc[0]))
            if stats.late_keys.get(lk, 0) < 3 and len(stats.late) < 120:  # up to 3 programs per (depth, last operation)
                stats.late_keys[lk] = stats.late_keys.get(lk, 0) + 1
                stats.late.append((res, exp, rdims, list(prog)))
    return rn, exp


def explore(F, nodes, R, prog, levels, stats, cache, deadline):
    """DFS: levels = catalogue tags per remaining depth, e.g. 'cf' = compact ops at this level, full at the last."""
    if time.time() > deadline:
        return False
    tag = levels[0]
    recurse = len(levels) > 1
    complete = True
    for op in catalogue(R, len(prog), F):
        if tag not in op.tags:
            continue
        p = prog + [op.desc]
        key = json.dumps(p, sort_keys=True, default=str)
        if key in stats.keys:
            continue
        stats.keys.add(key)
        cache.push()
        out = step(F, nodes, R, op, p, stats, cache)
        if not stats.samples and out is not None and not recurse and stats.cases >= 40:
            stats.samples.append({"source": stats.src_desc, "program": p})
        if out is not None and recurse and op.klass is None:
            if not explore(F, out[0], out[1], p, levels[1:], stats, cache, deadline):
                complete = False
        cache.pop()
        if time.time() > deadline:
            return False
    return complete


def cfg_desc(cfg):
    return {"node_shape": list(cfg[0]), "internal_shape": list(cfg[1]), "sources": cfg[2],
            "data": "perm_data: fixed permutation of 1..N over node_shape+internal_shape, dims x,y,z, labels '<dim><i>'"}


LEVEL_NAMES = {"f": "FULL", "m": "MEDIUM", "c": "COMPACT"}


def plan_text(plan):
    return "; ".join(f"source node shape {list(c[0])} / internal shape {list(c[1])} / {c[2]} sources: "
                     f"({', '.join(LEVEL_NAMES[ch] for ch in lv)})" for c, lv in plan)


def run_space(out, F, name, plan, bound, deadline):
    """plan = [(cfg, levels)]: for each source enumerate every program op_1..op_n with op_i from the catalogue named by levels[i]
    (every enumerated prefix is a case of its own)."""
    t0 = time.time()
    total = Stats(None)
    complete = True
    for ci, (cfg, levels) in enumerate(plan):
        st = Stats(cfg_desc(cfg))
        action, R = make_source(F, cfg, f"{name}/{ci}/{levels}")
        cache = Cache()
        # depth 0: the source itself denotes the stacked source arrays
        src_op = Op(["from_source", {}], lambda a: a, lambda R: R, noop=True)
        step(F, action.nodes, R, src_op, [], st, cache)
        if not explore(F, action.nodes, R, [], levels, st, cache, deadline):
            complete = False
        # a graph is evaluated when the user's whole program has been written: building OTHER actions in between must not change what an
        # already built action computes (shared mutable payload pieces, defaults, caches).  A sample of the programs that compared equal when
        # evaluated at once is evaluated again - from scratch - now that every other program over this source exists.
        for res, exp, rdims, prog in st.late:
            st.cases += 1
            try:
                with warnings.catch_warnings():
                    warnings.simplefilter("ignore")
                    with np.errstate(all="ignore"), _time_limit(CASE_SECONDS):
                        got = evaluate(res, Cache(), F)
                for idx in np.ndindex(*res.nodes.shape):
                    g = np.asarray(got[idx])
                    x = exp.big[idx]
                    if g.dtype == object or g.shape != x.shape or not _close(g.astype(float), x, exp):
                        st.fail("C13/values-unchanged-by-building-other-programs", "other", prog,
                                f"evaluated right after it was built this program agreed with NumPy; evaluated again after other programs over the same source "
                                f"were built, at {dict(zip(rdims, idx))}: shape {g.shape} {g.tolist() if g.dtype != object else '?'}, NumPy gives shape {x.shape} {x.tolist()}", CL_VALUE)
                        break
            except _CaseTimeout:
                pass
            except Exception as e:  # noqa
                st.fail("C13/values-unchanged-by-building-other-programs", "other", prog, f"second evaluation raised {type(e).__name__}: {e}", CL_VALUE)
        total.cases += st.cases
        total.nontrivial += st.nontrivial
        total.skipped_range += st.skipped_range
        total.nfail += st.nfail
        for k, v in st.known.items():
            total.known[k] = total.known.get(k, 0) + v
        for f in st.failures:
            if (f["obligation"], f["class"]) not in total.seen and len(total.failures) < 20:
                total.seen.add((f["obligation"], f["class"]))
                total.failures.append(f)
        for smp in st.samples:
            if len(total.samples) < 3:
                total.samples.append(smp)
        _DATA.clear()
    b = bound + (" Non-trivial rule: a case counts when its last operation is a real fluent call (not the bare source) whose result "
                 "passed the dims/coords stage and whose model stays within |v|<=1e100, i.e. its graph was evaluated and compared at every "
                 "coordinate; all cases are distinct programs (deduplicated on the JSON of source+program). "
                 f"{total.skipped_range} case(s) left the numeric range and were not compared; "
                 f"{total.nfail} failing case(s) in all, by class: {total.known or '{}'}.")
    if not complete:
        b += " WARNING: the time budget ended before the enumeration was complete - the bound above was NOT fully covered."
    out.add_bounded(name, "exhaustive enumeration", b, total.cases, total.nontrivial, time.time() - t0, total.samples, total.failures)


def run_random(out, F, seed, nprog, depths, sizes, deadline):
    t0 = time.time()
    rng = random.Random(seed)
    st = Stats(None)
    done = 0
    ishapes = [(), (2,), (3,), (2, 2), (2, 3), (3, 1, 2)]
    while done < nprog and time.time() < deadline:
        ndim = rng.choice([1, 1, 2, 2, 3])
        nshape = tuple(rng.choice(sizes) for _ in range(ndim))
        if int(np.prod(nshape)) > 30:
            continue
        cfg = (nshape, rng.choice(ishapes), "gen" if rng.random() < 0.2 else "plain")
        st.src_desc = cfg_desc(cfg)
        action, R = make_source(F, cfg, f"rnd/{done}")
        cache = Cache()
        nodes = action.nodes
        prog = []
        depth = rng.choice(depths)
        for lvl in range(depth):
            last = lvl == depth - 1
            ops = [op for op in catalogue(R, len(prog), F) if last or op.klass is None]
            if not ops:
                break
            op = rng.choice(ops)
            prog = prog + [op.desc]
            key = json.dumps([st.src_desc, prog], sort_keys=True, default=str)
            before = st.nontrivial
            res = step(F, nodes, R, op, prog, st, cache, evaluate_it=True)
            if key in st.keys:
                st.nontrivial = before       # a prefix shared with an earlier random program: executed again, counted once
            st.keys.add(key)
            if res is None:
                break
            nodes, R = res
        if len(st.samples) < 2 and len(prog) >= 3:
            st.samples.append({"source": st.src_desc, "program": prog})
        done += 1
        _DATA.clear()
    b = (f"{done} random programs (random.Random(seed={seed})): node shape of 1-3 dims with sizes from {sizes} (<= 30 nodes), internal shape from "
         f"{ishapes}, plain or generator sources, length from {depths}, every step drawn uniformly from the FULL catalogue of the current state "
         f"(instances hitting a known defect only as last step); every prefix of a program is a compared case. Non-trivial rule as in the "
         f"exhaustive spaces, counted once per distinct (source, program prefix) - {len(st.keys)} distinct ones were executed. "
         f"{st.skipped_range} case(s) left the numeric range; {st.nfail} failing case(s), by known class: {st.known or '{}'}.")
    out.add_bounded("C13 random fluent programs beyond the exhaustive bound", "seeded random", b, st.cases, st.nontrivial, time.time() - t0,
                    st.samples, st.failures)


# --------------------------------------------------------------------------------------------------
CATALOGUE_DOC = (
    "FULL catalogue per state = map (callable; per-node payload array; Payload with explicit args; generator with yields) + "
    "sum/mean/std/min/max/prod x every dim of size>=2 x batch_size 0..size+1 x keep_dim F/T + reduce(custom order-sensitive payload, explicit/default dim, keep_dim F/T) + "
    "reduce(custom batchable payload x batch_size 0..size+1 x keep_dim) + reduce(generator payload with yields, keep_dim F/T) + "
    "stack x dim x every internal axis position x keep_dim + flatten x dim x axis (+defaults) + concatenate x dim x every internal axis x batch_size 0..size+1 x keep_dim + "
    "expand x internal axis x every insert position x (int+full size, int+partial size, Coord dim + Coord internal_dim) + "
    "select/iselect x dim x (first, last, reversed pair, slice) x drop F/T + join (new str dim, new Coord dim, every existing dim) + "
    "add/subtract/multiply/divide/power x (scalar, Action) + broadcast (new dim trailing / leading / middle) + "
    "transform (multiply-by-param x every axis x str/Coord dim; select-by-param). "
    "MEDIUM = same operations with batch_size in {0,2}, keep_dim mostly False, extreme axes only (about a third of FULL). "
    "COMPACT = 12-16 structure-changing instances (map, generator map, sum per dim, batched sum/mean, max keep_dim, stack, concatenate, expand, select, "
    "iselect, join, multiply, subtract Action, broadcast trailing, transform) used for the inner levels of compositions.")


def run(out, tier, seed):
    t_start = time.time()
    warnings.filterwarnings("ignore", message="earthkit could not be imported.*")
    F = _F()
    quick = tier == "quick"
    deadline = t_start + (52.0 if quick else 860.0)
    P = "plain"

    if quick:
        single = [((2,), (), P), ((3,), (3,), P), ((5,), (2,), P), ((2, 3), (2,), P), ((3, 2), (2, 3), P), ((4, 2), (), P), ((2, 2, 3), (2,), P),
                  ((2, 3), (3,), "gen")]
        comp2 = [(((3,), (2,), P), "cf"), (((2, 3), (2,), P), "cf"), (((3,), (2, 2), P), "cm"), (((2, 2, 2), (), P), "cm")]
        comp3 = [(((3,), (2,), P), "ccc")]
    else:
        nshapes = [(2,), (3,), (4,), (5,), (6,), (2, 2), (2, 3), (3, 2), (3, 4), (5, 2), (2, 2, 2), (2, 3, 2), (3, 2, 4)]
        ishapes = [(), (1,), (3,), (2, 3), (3, 1, 2)]
        single = [(n, i, P) for n in nshapes for i in ishapes] + [((3,), (2,), "gen"), ((2, 3), (3,), "gen"), ((2, 2, 3), (), "gen")]
        comp2 = [(((3,), (2,), P), "ff"), (((2, 3), (2,), P), "mf"), (((3,), (2, 2), P), "cf"), (((5,), (2,), P), "cf"), (((3, 2), (), P), "cf"),
                 (((2, 2, 3), (2,), P), "cf"), (((2, 3), (2,), "gen"), "cf")]
        comp3 = [(((3,), (2,), P), "ccm"), (((2, 3), (2,), P), "ccm"), (((3, 2), (2, 2), P), "ccm"), (((2, 2, 3), (), P), "ccm"),
                 (((5,), (2,), P), "ccm"), (((2, 3), (2,), "gen"), "ccm")]

    caps = f" Operations whose result would exceed {MAX_NODES} node positions / {MAX_NDIMS} node dimensions / {MAX_ELEMS} model elements are not generated."
    run_space(out, F, "C13 single fluent operations, all parameters", [(c, "f") for c in single],
              "Every program of length 1 from the FULL catalogue (and the bare source itself) over: " + plan_text([(c, "f") for c in single]) + ". "
              + CATALOGUE_DOC + caps, t_start + 30.0 if quick else deadline)
    run_space(out, F, "C13 compositions of fluent operations, depth 2", comp2,
              "Every program op1;op2 with op1, op2 drawn from the catalogues named per source (catalogue of the state each operation is applied to; "
              "op1 is followed up only if it hit no known defect): " + plan_text(comp2) + ". Catalogues as defined in the first space." + caps, deadline)
    run_space(out, F, "C13 compositions of fluent operations, depth 3", comp3,
              "Every program op1;op2;op3 with the operations drawn from the catalogues named per source: " + plan_text(comp3)
              + ". Catalogues as defined in the first space." + caps, deadline)
    left = deadline - time.time()
    if quick:
        if left > 3:
            run_random(out, F, seed, 60, [3, 4], [2, 3, 4, 5], time.time() + min(left - 1, 6.0))
    elif left > 10:
        run_random(out, F, seed, 6000, [3, 4, 5], [2, 3, 4, 5, 6], time.time() + min(left - 5, 200.0))
