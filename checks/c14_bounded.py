"""Bounded stand-in for C14 (fluent node names identify computations; operations leave operands intact).

Labelled bounded, never proof.  The real `earthkit.workflows.fluent` API is driven with every fluent program up to a
stated size over shared sources; four oracles are evaluated on every program:

  C14/name-injective        every node ever built (all programs of a run share one table) is filed under its name together
                            with a structural identity (callable, static args, static kwargs, (input slot -> identity of
                            the producing node, output name)); two nodes filed under one name must have one identity.
  C14/rebuild-same-names    the program is built a second time from fresh sources (same callables / Payload objects): every
                            action of the second build carries, position by position, the names of the first build.
  C14/union-dedup,          Cascade.from_actions over the actions of one build / of two builds / of two different programs
  C14/lowering-unambiguous  over shared sources: no two distinct nodes of the result share a name, the union of two builds has
                            as many nodes as one build, serialise() (lowering keyed by name) does not trip its uniqueness
                            assertion, every input reference resolves - by name - to the very node it came from, and
                            graph2job yields one task per node.
  C14/operand-intact        before every applied operation every action alive so far (sources, intermediates, operands,
                            by-standers) is snapshotted: dims, shape, identity of each array element, coordinate names,
                            coordinate dims and coordinate values; afterwards (also when the operation raised) all must be
                            unchanged.

Where the property is silent nothing is demanded: an operation may raise (the case is then counted as trivial), sink order,
text of names, attrs, whether equal computations at different grid positions share a name, whether `select({})` aliases.

KNOWN pre-existing defects, classified and not fixed (class strings):
  same-__name__                  two different callables with equal __name__ (two lambdas, two functions called `h`) and equal
                                 args / inputs get one node name (name-injective, union-dedup, lowering-unambiguous)
  join-mutates-operand           Action.join(match_coord_values=True) - every binary operation between two actions - overwrites
                                 the coordinates of the operand passed in
  size1-squeeze-mutates-operand  concatenate / stack on a size-1 dimension squeeze the action itself (_combine_nodes)
  batch-transform-mutates        _batch_transform squeezes its selected action in place when select() returned self (classified if it
                                 ever shows; through the public API select() never returns self there, no program of the space hits it)

`replay_case(inputs)` re-runs the case(s) recorded in a failure's "inputs" on the current tree and returns the failures found.

FOUND DEFECTS (genuine, reproduced standalone on the unchanged tree; each has its own class string)

  transform-mutates-when-func-returns-self
      Action.transform(func, params, dim) calls `new_res._add_dimension(...)` / `res._squeeze_dimension(...)` on whatever
      `func` returned.  If `func` hands back the action it was given (identity, or a `select` whose criteria only name scalar
      coordinates - `select` then returns `self`) the *existing* action gains a dimension / a scalar coordinate.
          a = from_source(np.array([s0, s1]), dims=["x"], coords={"x": [0, 1]})
          a.transform(lambda act, v: act, [(1,), (2,)], "t")
          assert a.nodes.dims == ("x",)          # fails: ('t', 'x')

  repr-collision-static-args
      the name hashes `repr()` of the static arguments; numpy abbreviates arrays of more than 1000 elements, so two different
      static arrays that agree at both ends give one node name for two different computations.
          A = np.zeros(2000); B = A.copy(); B[1000] = 1
          s = from_source(np.array([s0]), dims=["x"])
          n1 = s.map(Payload(f, ["input0", A])).nodes.data[0].name
          n2 = s.map(Payload(f, ["input0", B])).nodes.data[0].name
          assert n1 != n2                         # fails
"""
from __future__ import annotations

import functools
import itertools
import json
import random
import time
import warnings

import numpy as np

CL_INJ = ("In any graph assembled from fluent actions, including the union of several actions, two nodes carry the same name "
          "only if they denote the same computation (same callable, same static arguments, same inputs)")
CL_DET = "building the same program twice gives the same names"
CL_UNION = "so unions de-duplicate and lowering by name is unambiguous"
CL_IMM = ("Applying an operation to an action, or passing an action as an operand, never changes the node array, dimensions "
          "or coordinates of an existing action.")

MAX_FAILURES = 20


# ------------------------------------------------------------------------------------------------------------------------
# callables of the programs (module level: cloudpickle takes them by reference; the same objects are used by every build)
def f(*a, **k):
    return ("f", a, k)


def g(*a, **k):
    return ("g", a, k)


l1 = lambda *a, **k: ("l1", a, k)  # noqa: E731
l2 = lambda *a, **k: ("l2", a, k)  # noqa: E731


def yf(*a, **k):  # generator payloads are kept apart from the plain ones: the property does not say whether one callable used
    yield ("yf", a, k)  # both as a plain function and as a generator on the same inputs is one computation or two
    yield ("yf", a, k)


yl = lambda *a, **k: iter((("yl", a, k), ("yl", a, k)))  # noqa: E731


def _named(name, tag):
    def fn(*a, **k):
        return (name, tag, a, k)
    fn.__name__ = name
    fn.__qualname__ = name
    return fn


h1 = _named("h", 1)
h2 = _named("h", 2)
readb = _named("readb", 0)
_SRC_FUNCS: dict = {}


def _srcfun(prefix, i):
    key = f"{prefix}{i}"
    if key not in _SRC_FUNCS:
        _SRC_FUNCS[key] = _named(key, 0)
    return _SRC_FUNCS[key]


def _ident(act, *_):
    return act


class _K:
    """handles on the code under test (imported late so that EKW_REPO_SRC / PYTHONPATH decide what is tested)"""

    def __init__(self):
        with warnings.catch_warnings():
            warnings.simplefilter("ignore")
            import earthkit.workflows.fluent as fluent
            from earthkit.workflows import Cascade
            from earthkit.workflows.graph import serialise
            try:
                from cascade.low.into import graph2job
            except Exception:  # noqa  lowering to cascade.low is optional for this property
                graph2job = None
        self.fluent, self.Cascade, self.serialise, self.graph2job = fluent, Cascade, serialise, graph2job
        P = fluent.Payload
        self.Payload = P
        # payload pool: plain callables, anonymous callables, equal-__name__ callables, same callable with equal / different
        # static args and kwargs, a functools.partial.  Payload objects are shared by all builds on purpose.
        self.pool = {
            "f": f, "g": g, "l1": l1, "l2": l2, "h1": h1, "h2": h2,
            "f(1)": P(f, ["input0", 1]), "f(2)": P(f, ["input0", 2]), "f('1')": P(f, ["input0", "1"]),
            "f(k=1)": P(f, kwargs={"k": 1}), "f(k=2)": P(f, kwargs={"k": 2}), "f(1,k=1)": P(f, ["input0", 1], {"k": 1}),
            "g(1)": P(g, ["input0", 1]), "pf(3)": functools.partial(f, 3), "f[3]": P(f, [3]), "yf": yf, "yl": yl,
        }
        self.arr_payloads = [P(f, ["input0", i]) for i in range(8)]
        self.tmap = lambda act, p: act.map(P(f, ["input0", p]))


# ------------------------------------------------------------------------------------------------------------------------
class OpRaised(Exception):
    pass


class StepNA(Exception):
    pass


def _elems(nodes):
    return list(np.asarray(nodes.data, dtype=object).ravel())


def _snap(action):
    n = action.nodes
    coords = {}
    for k, v in n.coords.items():
        coords[str(k)] = (tuple(str(d) for d in v.dims), np.asarray(v.values).tolist())
    return (tuple(str(d) for d in n.dims), tuple(int(s) for s in n.shape), _elems(n), coords)


def _snap_diff(b, a):
    out = []
    if b[0] != a[0]:
        out.append(("dims", f"dims {list(b[0])} -> {list(a[0])}"))
    if b[1] != a[1]:
        out.append(("shape", f"shape {list(b[1])} -> {list(a[1])}"))
    if len(b[2]) != len(a[2]) or any(x is not y for x, y in zip(b[2], a[2])):
        out.append(("elements", "node array elements replaced"))
    if set(b[3]) != set(a[3]):
        out.append(("coord-keys", f"coordinates {sorted(b[3])} -> {sorted(a[3])}"))
    for k in b[3]:
        if k in a[3]:
            if b[3][k][0] != a[3][k][0]:
                out.append(("coord-dims", f"coordinate {k} dims {list(b[3][k][0])} -> {list(a[3][k][0])}"))
            if b[3][k][1] != a[3][k][1]:
                out.append(("coord-values", f"coordinate {k} values {b[3][k][1]} -> {a[3][k][1]}"))
    return out


def _ename(e):
    return f"{e.parent.name}.{e.name}" if hasattr(e, "parent") else e.name


def _names(action):
    n = action.nodes
    coords = {str(k): (tuple(str(d) for d in v.dims), np.asarray(v.values).tolist()) for k, v in n.coords.items()}
    return (tuple(str(d) for d in n.dims), tuple(int(s) for s in n.shape), [_ename(e) for e in _elems(n)], coords)


def _canon(v):
    if isinstance(v, np.ndarray):
        return ("A", v.shape, v.dtype.str, v.tobytes())
    if isinstance(v, (list, tuple)):
        return ("S", tuple(_canon(x) for x in v))
    if isinstance(v, dict):
        return ("D", frozenset((_canon(k), _canon(x)) for k, x in v.items()))
    try:
        hash(v)
        return ("V", v)
    except TypeError:
        return ("I", id(v))


def _ftoken(func):
    try:
        hash(func)
        return ("F", func)
    except TypeError:
        return ("I", id(func))


def _fname(func):
    return getattr(func, "__name__", "")


# ------------------------------------------------------------------------------------------------------------------------
class Env:
    """one build: fresh sources, the list of every action alive, application of steps with before/after snapshots"""

    def __init__(self, chk, shape, check=True, case=None, fresh=False):
        self.chk, self.K, self.shape, self.check, self.case, self.fresh = chk, chk.K, shape, check, case, fresh
        self.alive: list = []  # [labels, action]
        self._src: dict = {}
        self._derived = None
        self.nops = 0

    def reg(self, label, act):
        for ent in self.alive:
            if ent[1] is act:
                ent[0].append(label)
                return act
        self.alive.append([[label], act])
        return act

    def actions(self):
        return [a for _, a in self.alive]

    def _from_source(self, name):
        shape = [("w", 2)] if name == "W" else self.shape
        dims = [d for d, _ in shape]
        sizes = tuple(s for _, s in shape)
        arr = np.empty(sizes, dtype=object)
        for i, idx in enumerate(np.ndindex(*sizes)):
            if name in ("A", "W"):
                arr[idx] = _srcfun(name.lower(), i)
            elif name == "B":
                arr[idx] = self.K.Payload(readb, [i])
            else:  # Bd: same shape as A, different coordinate values, different computations
                arr[idx] = self.K.Payload(readb, [100 + i])
        off = 10 if name == "Bd" else 0
        coords = {d: [off + j for j in range(s)] for d, s in shape}
        return self.K.fluent.from_source(arr, dims=dims, coords=coords)

    def src(self, name):
        """source action `name` of this build.  Programs share their source *nodes* ("programs over shared sources"): the nodes come
        from one from_source call per (shape, name) and run; every build gets its own Action and its own node array around them, so
        that nothing leaks between builds.  Builds with fresh=True (the empty program, the late re-builds) call from_source itself."""
        if name not in self._src:
            if self.fresh:
                act = self._from_source(name)
            else:
                key = (self.shape, name)
                if key not in self.chk.src_cache:
                    self.chk.src_cache[key] = self._from_source(name)
                n = self.chk.src_cache[key].nodes
                import xarray as xr
                act = type(self.chk.src_cache[key])(xr.DataArray(np.array(n.data, dtype=object, copy=True), dims=n.dims,
                                                                 coords={k: np.array(v.values, copy=True) for k, v in n.coords.items()}))
            self._src[name] = self.reg(name, act)
        return self._src[name]

    def derived(self):
        if self._derived is None:
            self._derived = self.reg("A.map(g)", self.src("A").map(g))
        return self._derived

    def run(self, steps, start="A"):
        cur = self.src(start)
        for i, st in enumerate(steps):
            cur = self.apply(cur, st, steps[:i], start, f"{start}>{i}")
        return cur

    def operand(self, kind, prefix, cur, start):
        if kind == "self":
            return cur
        if kind == "Am":
            return self.derived()
        if kind == "W":
            return self.src("W")
        if kind in ("B", "Bd"):  # the same prefix applied to the other source ("mirror"), so that shapes stay compatible
            if start == kind:
                return cur
            return self.run(prefix, start=kind)
        raise StepNA(kind)

    def apply(self, cur, st, prefix, start, label):
        kind = st[0]
        subj, arg = cur, None
        try:
            if kind == "bin":
                other = self.operand(st[2], prefix, cur, start)
                subj, arg = (other, cur) if st[3] else (cur, other)
            elif kind in ("join", "broadcast"):
                arg = self.operand(st[1], prefix, cur, start)
        except StepNA as e:
            raise OpRaised(f"{st}: not applicable {e}")
        before = [(ent, _snap(ent[1])) for ent in self.alive] if self.check else []
        err, res = None, None
        try:
            with warnings.catch_warnings():
                warnings.simplefilter("ignore")
                res = self._do(subj, arg, st)
        except Exception as e:  # noqa  the property is silent on operations that raise
            err = e
        self.nops += 1
        for ent, b in before:
            d = _snap_diff(b, _snap(ent[1]))
            if d:
                role = "subject" if ent[1] is subj else ("operand" if ent[1] is arg else "bystander")
                self.chk.mutation(self, st, ent, role, b, d, err)
        if err is not None:
            raise OpRaised(f"{st}: {err!r}")
        self.reg(label, res)
        return res

    def _do(self, a, other, st):
        K, kind = self.K, st[0]
        dims = [str(d) for d in a.nodes.dims]

        def dim(i):
            if i >= len(dims):
                raise StepNA("no such dim")
            return dims[i]

        if kind == "map":
            return a.map(K.pool[st[1]])
        if kind == "map_y":
            return a.map(K.pool[st[1]], yields=("yy", [0, 1]))
        if kind == "map_arr":  # one payload per node
            arr = np.empty(a.nodes.shape, dtype=object)
            for i, idx in enumerate(np.ndindex(*a.nodes.shape)):
                arr[idx] = K.arr_payloads[i % 8] if st[1] == "f(i)" else (l1, l2)[i % 2]
            return a.map(arr)
        if kind == "reduce":
            return a.reduce(K.pool[st[1]], dim=dim(st[2]))
        if kind == "stat":
            return getattr(a, st[1])(dim=dim(st[2]), batch_size=st[3], keep_dim=st[4])
        if kind == "concatenate":
            return a.concatenate(dim(st[1]), keep_dim=st[2])
        if kind == "stack":
            return a.stack(dim(st[1]), keep_dim=st[2])
        if kind == "flatten":
            return a.flatten(dim(st[1]))
        if kind in ("select", "iselect"):
            d = dim(st[1])
            vals = np.asarray(a.nodes.coords[d].values).tolist() if kind == "select" else list(range(a.nodes.sizes[d]))
            mode = st[2]
            if mode in ("list2",) and len(vals) < 2:
                raise StepNA("size")
            crit = {"scalar": vals[0], "scalar_drop": vals[0], "last": vals[-1], "list1": [vals[0]], "list2": vals[:2]}[mode]
            meth = a.select if kind == "select" else a.iselect
            return meth({d: crit}, drop=(mode == "scalar_drop"))
        if kind == "select_none":
            return a.select({})
        if kind == "expand":
            if st[1] == "idx2":
                return a.expand(("ee", [10, 11]), 0, 2)
            if st[1] == "idx1":
                return a.expand("ee", 0, 1)
            return a.expand("ee", ("i", [5, 6]))
        if kind == "broadcast":
            return a.broadcast(other)
        if kind == "sbin":
            return getattr(a, st[1])(st[2])
        if kind == "bin":
            return getattr(a, st[1])(other)
        if kind == "join":
            mode = st[2]
            if mode == "new":
                return a.join(other, "nd")
            if mode == "newc":
                return a.join(other, ("nd", [7, 8]))
            if mode == "d0":
                return a.join(other, dim(0))
            return a.join(other, "nd", match_coord_values=True)
        if kind == "transform":
            mode = st[1]
            if mode == "id1":
                return a.transform(_ident, [(1,)], "td")
            if mode == "id2":
                return a.transform(_ident, [(1,), (2,)], "td")
            if mode == "map1":
                return a.transform(K.tmap, [(1,)], "td")
            if mode == "map2":
                return a.transform(K.tmap, [(1,), (2,)], "td")
            if mode == "map2c":
                return a.transform(K.tmap, [(1,), (2,)], ("td", [5, 6]))
            if mode == "selscalar":
                sc = [str(k) for k, v in a.nodes.coords.items() if str(k) not in dims and v.ndim == 0]
                if not sc:
                    raise StepNA("no scalar coordinate")
                val = a.nodes.coords[sc[0]].values.item()
                return a.transform(lambda act, v: act.select({sc[0]: v}), [(val,)], "td")
        raise StepNA(str(st))


# ------------------------------------------------------------------------------------------------------------------------
BIN_OPS = ["add", "subtract", "multiply", "divide", "power"]


def gen_steps(cur, level, tier):
    """the alphabet of next steps for the action `cur`; 'mini' is a subset of 'core', 'core' a subset of 'full'"""
    dims = [str(d) for d in cur.nodes.dims]
    nd = len(dims)
    last = nd - 1
    out = []
    if level == "mini":
        out += [("map", "f"), ("map", "l1"), ("map_y", "yf"), ("bin", "add", "Bd", False), ("bin", "subtract", "Bd", True), ("transform", "map2"),
                ("select_none",)]
        if nd:
            out += [("reduce", "f", 0), ("stat", "sum", last, 2, False), ("concatenate", 0, False), ("select", 0, "list1")]
        return out
    if level == "core":
        out += [("map", p) for p in ("f", "l1", "l2", "f(1)")]
        out += [("map_y", "yf"), ("sbin", "add", 2), ("bin", "add", "B", False), ("bin", "add", "Bd", False),
                ("bin", "subtract", "Bd", True), ("join", "Bd", "new"), ("expand", "idx2"), ("transform", "map2"), ("select_none",)]
        if nd:
            out += [("reduce", "f", 0), ("stat", "sum", 0, 0, False), ("stat", "sum", last, 2, False), ("concatenate", 0, False),
                    ("select", 0, "list1")]
        return out
    pool = ["f", "g", "l1", "l2", "h1", "h2", "f(1)", "f(2)", "f('1')", "f(k=1)", "f(k=2)", "f(1,k=1)", "g(1)", "pf(3)", "f[3]"]
    out += [("map", p) for p in pool]
    out += [("map_arr", "f(i)"), ("map_arr", "l1/l2")]
    if "yy" not in cur.nodes.coords:
        out += [("map_y", p) for p in ("yf", "yl")]
    stats = ["sum", "mean", "std"] + (["min", "max", "prod"] if tier == "thorough" else [])
    for di in range(nd):
        out += [("reduce", p, di) for p in ("f", "g", "l1", "l2", "f(1)", "f(k=1)")]
        out += [("stat", s, di, b, k) for s in stats for b in (0, 2) for k in (False, True)]
        out += [("concatenate", di, False), ("concatenate", di, True), ("stack", di, False), ("stack", di, True), ("flatten", di)]
        out += [("select", di, m) for m in ("scalar", "scalar_drop", "last", "list1", "list2")]
        out += [("iselect", di, "scalar"), ("iselect", di, "list2")]
    out += [("select_none",), ("expand", "idx2"), ("expand", "idx1"), ("expand", "coord"), ("broadcast", "W"), ("broadcast", "B")]
    out += [("sbin", op, 2) for op in BIN_OPS] + [("sbin", "add", 3), ("sbin", "add", 2.0)]
    ops = BIN_OPS if tier == "thorough" else BIN_OPS[:2]
    out += [("bin", op, o, r) for op in ops for o in ("B", "Bd", "Am", "self") for r in (False, True) if not (o == "self" and r)]
    out += [("join", o, m) for o in ("B", "Bd") for m in ("new", "newc", "d0", "match")]
    out += [("transform", m) for m in ("id1", "id2", "map1", "map2", "map2c")]
    if any(str(k) not in dims and v.ndim == 0 for k, v in cur.nodes.coords.items()):
        out.append(("transform", "selscalar"))
    return out


# ------------------------------------------------------------------------------------------------------------------------
class Checker:
    def __init__(self, K, tier):
        self.K, self.tier = K, tier
        self.table: dict = {}  # node name -> (identity id, witness node, witness case)
        self.interner: dict = {}
        self.fail: dict = {}  # (obligation, class) -> failure dict
        self.seen: dict = {}  # (obligation, class) -> count
        self.src_cache: dict = {}
        self.first: dict = {}  # (shape, program of <= 1 step) -> names of all its actions at its first build
        self.reset_counts()

    def reset_counts(self):
        self.cases = 0
        self.nontrivial: set = set()
        self.samples: list = []
        self.t0 = time.time()

    # -- failures -------------------------------------------------------------------------------------------------------
    def failure(self, obligation, cls, inputs, observed, clause):
        key = (obligation, cls)
        self.seen[key] = self.seen.get(key, 0) + 1
        if key in self.fail or len(self.fail) >= MAX_FAILURES:
            return
        self.fail[key] = {"obligation": obligation, "inputs": json.loads(json.dumps(inputs, default=str)), "observed": str(observed)[:400],
                          "clause": clause, "class": cls, "_new": True}

    def take_failures(self):
        out = []
        for v in self.fail.values():
            if v.pop("_new", False):
                out.append(v)
        return out

    # -- operand-intact -------------------------------------------------------------------------------------------------
    def mutation(self, env, st, ent, role, before, diff, err):
        kinds = {k for k, _ in diff}
        kind = st[0]
        cls = "other"
        bdims, adims = before[0], tuple(str(d) for d in ent[1].nodes.dims)
        lost_one = len(adims) == len(bdims) - 1 and all(d in bdims for d in adims)
        if role == "operand" and (kind == "bin" or (kind == "join" and st[2] == "match")) \
                and kinds <= {"coord-values", "coord-keys", "coord-dims"}:
            cls = "join-mutates-operand"
        elif role == "subject" and kind in ("concatenate", "stack") and not st[2] and lost_one and "elements" not in kinds \
                and st[1] < len(bdims) and before[1][st[1]] == 1 and bdims[st[1]] not in adims:
            cls = "size1-squeeze-mutates-operand"
        elif role == "subject" and kind == "stat" and st[3] > 1 and lost_one and "elements" not in kinds:
            cls = "batch-transform-mutates"
        elif role == "subject" and kind == "transform" and st[1] in ("id1", "id2", "selscalar") and "elements" not in kinds:
            cls = "transform-mutates-when-func-returns-self"
        inputs = dict(env.case or {})
        inputs.update({"at_step": list(st), "changed_action": ent[0], "role": role})
        self.failure("C14/operand-intact", cls, inputs,
                     f"{role} {ent[0][0]} changed by {list(st)}: " + "; ".join(t for _, t in diff) + (f" (operation then raised {err!r})" if err else ""),
                     CL_IMM)

    # -- name-injective -------------------------------------------------------------------------------------------------
    def ident(self, n, memo):
        k = memo.get(id(n))
        if k is None:
            func, args, kwargs = n.payload
            ins = tuple(sorted((iname, self.ident(o.parent, memo), str(o.name)) for iname, o in n.inputs.items()))
            raw = (_ftoken(func), _canon(args), _canon(kwargs), ins)
            k = self.interner.setdefault(raw, len(self.interner))
            memo[id(n)] = k
        return k

    def reasons(self, a, b, memo, depth=0):
        """why two equally named nodes are different computations"""
        out = set()
        fa, aa, ka = a.payload
        fb, ab, kb = b.payload
        if _ftoken(fa) != _ftoken(fb):
            out.add("callable-same-__name__" if _fname(fa) == _fname(fb) else "callable")
        if _canon(aa) != _canon(ab):
            out.add("args-same-repr" if repr(aa) == repr(ab) else "args")
        if _canon(ka) != _canon(kb):
            out.add("args-same-repr" if repr(ka) == repr(kb) else "kwargs")
        if set(a.inputs) != set(b.inputs):
            out.add("inputs")
            return out
        for iname, oa in a.inputs.items():
            ob = b.inputs[iname]
            if str(oa.name) != str(ob.name) or oa.parent.name != ob.parent.name:
                out.add("inputs")
            elif self.ident(oa.parent, memo) != self.ident(ob.parent, memo) and depth < 50:
                out |= self.reasons(oa.parent, ob.parent, memo, depth + 1)
        return out

    def classify(self, a, b, memo):
        r = self.reasons(a, b, memo)
        if r == {"callable-same-__name__"}:
            return "same-__name__", r
        if r == {"args-same-repr"}:
            return "repr-collision-static-args", r
        return "other", r

    def all_nodes(self, actions):
        seen, out, todo = set(), [], []
        for a in actions:
            for e in _elems(a.nodes):
                todo.append(e.parent if hasattr(e, "parent") else e)
        while todo:
            n = todo.pop()
            if id(n) in seen:
                continue
            seen.add(id(n))
            out.append(n)
            todo.extend(o.parent for o in n.inputs.values())
        return out

    def file_names(self, actions, case):
        memo: dict = {}
        for n in self.all_nodes(actions):
            k = self.ident(n, memo)
            hit = self.table.get(n.name)
            if hit is None:
                self.table[n.name] = (k, n, case)
            elif hit[0] != k:
                cls, r = self.classify(hit[1], n, memo)
                self.failure("C14/name-injective", cls, {"kind": "names", "name": n.name, "cases": [hit[2], case]},
                             f"one name {n.name[:40]}... for two computations differing in {sorted(r)}: payload {_pl(hit[1])} vs {_pl(n)}", CL_INJ)

    def recheck(self):
        """after many other programs were built: (1) the short programs still get the names of their first build, (2) the
        nodes filed in the name table still are the computations they were filed as"""
        for (shape, steps), names in self.first.items():
            case = {"kind": "program", "shape": [list(s) for s in shape], "steps": [list(s) for s in steps]}
            self.cases += 1
            env = Env(self, shape, False, case, True)
            try:
                env.run(steps)
            except OpRaised as e:
                self.failure("C14/rebuild-same-names", "other", case, f"a later build of the same program raised {e}", CL_DET)
                continue
            now = [_names(a) for a in env.actions()]
            if now != names:
                self.failure("C14/rebuild-same-names", "other", case,
                             "a later build of the same program (other programs were built in between, in the same process) gives other names / coordinates "
                             f"than its first build: {[n[2][0][:16] for n in names]} vs {[n[2][0][:16] for n in now]}", CL_DET)
        memo: dict = {}
        for name, (k, n, case) in self.table.items():
            if self.ident(n, memo) != k or n.name != name:
                self.failure("C14/name-injective", "other", {"kind": "names", "name": name, "cases": [case]},
                             f"the node named {name[:40]}... no longer is the computation it was named for (callable / static arguments / inputs "
                             f"changed after naming): now {_pl(n)}", CL_INJ)

    # -- unions ----------------------------------------------------------------------------------------------------------
    def union(self, actions, case, lower=True):
        """Cascade.from_actions(actions); returns the number of nodes, or None when a duplicate name was reported"""
        try:
            with warnings.catch_warnings():
                warnings.simplefilter("ignore")
                graph = self.K.Cascade.from_actions(actions)._graph
                nodes = list(graph.nodes())
        except Exception as e:  # noqa
            self.failure("C14/union-dedup", "other", case, f"Cascade.from_actions raised {e!r}", CL_UNION)
            return None
        by: dict = {}
        for n in nodes:
            by.setdefault(n.name, []).append(n)
        dup = [v for v in by.values() if len(v) > 1]
        cls = None
        if dup:
            cls, r = self.classify(dup[0][0], dup[0][1], {})
            if not r:
                cls = "other"
            self.failure("C14/union-dedup", cls, case,
                         f"after de-duplication {len(dup[0])} distinct nodes are still named {dup[0][0].name[:40]}... (they differ in {sorted(r) or 'nothing'}): "
                         f"{_pl(dup[0][0])} vs {_pl(dup[0][1])}", CL_UNION)
        try:
            ser = self.K.serialise(graph)
        except AssertionError:
            self.failure("C14/lowering-unambiguous", cls or "other", case, "serialise(): the name-uniqueness assertion fired", CL_UNION)
            return None
        except Exception as e:  # noqa
            self.failure("C14/lowering-unambiguous", cls or "other", case, f"serialise() raised {e!r}", CL_UNION)
            return None
        if dup:
            return None
        if len(ser) != len(nodes):
            self.failure("C14/lowering-unambiguous", "other", case, f"{len(nodes)} nodes serialise to {len(ser)} entries", CL_UNION)
        for n in nodes:
            for iname, o in n.inputs.items():
                ref = ser[n.name]["inputs"].get(iname)
                pname = ref if isinstance(ref, str) else (ref[0] if ref else None)
                if pname is None or by.get(pname, [None])[0] is not o.parent:
                    self.failure("C14/lowering-unambiguous", "other", case,
                                 f"input {iname} of {n.name[:30]} resolves by name to a node other than its producer", CL_UNION)
        if lower and self.K.graph2job is not None:
            try:
                job = self.K.graph2job(graph)
            except Exception:  # noqa  anything but ambiguity is not C14's business
                job = None
            if job is not None:
                nin = sum(len(n.inputs) for n in nodes)
                if len(job.tasks) != len(nodes) or len(job.edges) != nin or any(e.source.task not in job.tasks for e in job.edges):
                    self.failure("C14/lowering-unambiguous", "other", case,
                                 f"graph2job: {len(nodes)} nodes / {nin} inputs became {len(job.tasks)} tasks / {len(job.edges)} edges", CL_UNION)
        return len(nodes)

    # -- one program -----------------------------------------------------------------------------------------------------
    def program(self, shape, steps, lower=False):
        """all oracles on one program; returns the final action of the first build (or None when the program raises)"""
        case = {"kind": "program", "shape": [list(s) for s in shape], "steps": [list(s) for s in steps]}
        self.cases += 1
        fresh = len(steps) == 0
        env1 = Env(self, shape, True, case, fresh)
        try:
            fin = env1.run(steps)
        except OpRaised:
            self.file_names(env1.actions(), case)
            return None
        self.file_names(env1.actions(), case)
        if len(steps) <= 1 and (shape, steps) not in self.first:
            self.first[(shape, steps)] = [_names(a) for a in env1.actions()]
        if steps:
            self.nontrivial.add(json.dumps(case, default=str))
            if len(self.samples) < 3 and len(self.nontrivial) in (1, 40, 400):
                self.samples.append(case)
        # second build
        env2 = Env(self, shape, False, case, fresh)
        try:
            env2.run(steps)
        except OpRaised as e:
            self.failure("C14/rebuild-same-names", "other", case, f"second build of the same program raised {e}", CL_DET)
            return fin
        a1, a2 = env1.actions(), env2.actions()
        if len(a1) != len(a2):
            self.failure("C14/rebuild-same-names", "other", case, f"{len(a1)} actions in the first build, {len(a2)} in the second", CL_DET)
        else:
            for (lab, x), y in zip(env1.alive, a2):
                nx, ny = _names(x), _names(y)
                if nx != ny:
                    what = "names" if nx[2] != ny[2] else "dims/coordinates"
                    self.failure("C14/rebuild-same-names", "other", dict(case, action=lab),
                                 f"{what} of action {lab[0]} differ between two builds: {[s[:14] for s in nx[2]][:4]} vs {[s[:14] for s in ny[2]][:4]}", CL_DET)
                    break
        # unions: one build alone, two builds together
        n1 = self.union(a1, case, lower)
        env3 = Env(self, shape, False, case, fresh)
        try:
            env3.run(steps)
        except OpRaised as e:
            self.failure("C14/rebuild-same-names", "other", case, f"third build of the same program raised {e}", CL_DET)
            return fin
        n2 = self.union(a2 + env3.actions(), case, False)
        if n1 is not None and n2 is not None and n1 != n2:
            self.failure("C14/union-dedup", "other", case, f"one build de-duplicates to {n1} nodes, the union of two builds to {n2}", CL_UNION)
        return fin

    # -- a pair of programs over shared sources --------------------------------------------------------------------------
    def pair(self, shape, p, q):
        case = {"kind": "pair", "shape": [list(s) for s in shape], "steps": [list(s) for s in p], "steps2": [list(s) for s in q]}
        self.cases += 1
        env = Env(self, shape, True, case)
        try:
            fp = env.run(p)
            fq = env.run(q)
        except OpRaised:
            return
        self.file_names(env.actions(), case)
        if p != q:
            self.nontrivial.add(json.dumps(case, default=str))
            if len(self.samples) < 3 and len(self.nontrivial) in (1, 50, 200):
                self.samples.append(case)
        self.union([fp, fq], case, True)


def _pl(n):
    func, args, kwargs = n.payload
    return f"({_fname(func)}@{id(func) & 0xffff:04x}, {str(args)[:40]}, {str(kwargs)[:30]})"


# ------------------------------------------------------------------------------------------------------------------------
def _enumerate(chk, shape, plan, tier):
    """plan: list of levels ('full' | 'core'), one per depth; yields nothing, runs every program breadth first"""
    frontier = [()]
    chk.program(shape, (), lower=True)
    for depth, level in enumerate(plan):
        nxt = []
        for prefix in frontier:
            scratch = Env(chk, shape, False)
            try:
                cur = scratch.run(prefix)
            except OpRaised:
                continue
            for st in gen_steps(cur, level, tier):
                prog = prefix + (st,)
                fin = chk.program(shape, prog, lower=(depth == 0))
                if fin is not None:
                    nxt.append(prog)
        frontier = nxt


def _plans(tier):
    """(shape, [levels per depth]) - a program belongs to the space when step i is in alphabet plan[i]"""
    s1 = (("x", 3),)
    s2 = (("x", 2), ("y", 3))
    s3 = (("e", 1), ("x", 2))
    if tier == "quick":
        return [(s1, ["full"]), (s2, ["full"]), (s3, ["full"]), (s2, ["core", "core"]), (s3, ["core", "core"])]
    s4 = (("x", 5),)
    s5 = (("x", 2), ("y", 1), ("z", 2))
    return [(s1, ["full", "core"]), (s1, ["core", "full"]), (s2, ["full", "core"]), (s2, ["core", "full"]),
            (s3, ["full", "core"]), (s3, ["core", "full"]), (s4, ["full", "core"]), (s5, ["full"]), (s5, ["core", "core"]),
            (s2, ["mini", "mini", "mini"])]


def _static_values():
    big0 = np.zeros(2000)
    big1 = big0.copy()
    big1[1000] = 1.0
    return [("1", 1), ("2", 2), ("1.0", 1.0), ("'1'", "1"), ("(1,)", (1,)), ("[1]", [1]), ("None", None), ("True", True),
            ("{'a':1}", {"a": 1}), ("{'a':2}", {"a": 2}), ("arange(3)", np.arange(3)), ("arange(3)+1", np.arange(3) + 1),
            ("zeros(2000)", big0), ("zeros(2000);[1000]=1", big1), ("'a', 'b'", "a', 'b")]


def run(out, tier, seed):
    K = _K()
    chk = Checker(K, tier)

    # ---- 1. every program up to the bound: names, rebuild, unions, operands ----------------------------------------------
    done = set()
    for shape, plan in _plans(tier):
        if (shape, tuple(plan)) in done:
            continue
        done.add((shape, tuple(plan)))
        _enumerate(chk, shape, plan, tier)
    chk.recheck()
    plans_txt = "; ".join(f"{dict(s)}: step alphabets {p}" for s, p in _plans(tier))
    failures = chk.take_failures()
    if not chk.nontrivial:
        failures.append({"obligation": "C14/harness-vacuous", "inputs": {}, "observed": "no fluent program could be built", "clause": CL_INJ, "class": "other"})
    out.add_bounded(
        "fluent programs over shared sources", "exhaustive enumeration",
        "every program start=source A followed by steps s1..sk with s_i drawn from the i-th listed alphabet, for: " + plans_txt +
        ". Alphabet 'full' = map with 15 payloads (2 named functions, 2 lambdas, 2 functions both named h, same function with "
        "args 1/2/'1', kwargs k=1/k=2, args+kwargs, partial), map with an array of per-node payloads x2, generator map x2, reduce with 6 payloads per dim, "
        "sum/mean/std" + ("/min/max/prod" if tier == "thorough" else "") + " per dim x batch_size {0,2} x keep_dim, concatenate/stack per dim x keep_dim, flatten, "
        "select/iselect (scalar, drop, last, 1-list, 2-list) per dim, select({}), expand x3, broadcast x2, 5 scalar binary ops, "
        + ("5" if tier == "thorough" else "2") + " action binary ops x operand {same program on source B (equal coords), same program on source Bd (different coord values), "
        "A.map(g), self} x both operand orders, join x {B,Bd} x {new dim, new Coord, existing dim, match_coord_values}, transform x "
        "{func returns its argument x2, func maps x3, select on scalar coord}; alphabet 'core' = 18 of these, alphabet 'mini' = 11 of 'core'. Sources: A plain functions, "
        "B/Bd Payload(readb,[i]). Each program is built 3 times (oracles in the module docstring); programs of <= 1 step are built a 4th time "
        "after all others and every node of the name table is re-inspected then. "
        "Non-trivial = distinct program with >= 1 step all of whose operations returned (programs with a raising operation are "
        "executed and checked for operand mutation but counted trivial).",
        chk.cases, len(chk.nontrivial), time.time() - chk.t0, chk.samples, failures)

    # ---- 2. pairs of different programs over shared sources ---------------------------------------------------------------
    chk.reset_counts()
    shape = (("x", 2), ("y", 2))
    scratch = Env(chk, shape, False)
    full1 = gen_steps(scratch.src("A"), "full", tier)
    if tier == "quick":
        alpha = [s for s in full1 if s[0] in ("map", "map_y", "map_arr") or (s[0] == "reduce" and s[2] == 0)
                 or s in (("stat", "sum", 0, 0, False), ("sbin", "add", 2), ("sbin", "add", 3), ("sbin", "subtract", 2),
                          ("bin", "add", "B", False), ("bin", "add", "Bd", False), ("bin", "add", "B", True), ("bin", "subtract", "B", False),
                          ("select", 0, "scalar"), ("select", 0, "last"))]
    else:
        alpha = [s for s in full1 if not (s[0] == "stat" and (s[4] or s[1] in ("min", "max", "prod"))) and not (s[0] in ("concatenate", "stack") and s[2])
                 and not (s[0] == "bin" and s[1] in ("multiply", "divide", "power")) and s[0] != "iselect"]
    progs = [(s,) for s in alpha]
    if tier == "thorough":
        progs += [(a, b) for a in gen_steps(scratch.src("A"), "core", tier) for b in (("map", "f"), ("map", "l1"), ("map", "l2"), ("sbin", "add", 2))]
    for p, q in itertools.combinations_with_replacement(progs, 2):
        chk.pair(shape, p, q)
    out.add_bounded(
        "pairs of fluent programs over shared sources", "exhaustive enumeration",
        f"every unordered pair (with repetition) of {len(progs)} programs on shape {dict(shape)} built from the same source actions: "
        + ("1-step programs over all map / generator-map payloads, all reduce payloads on dim 0, sum, 3 scalar ops, 4 action binary ops, 2 selects"
           if tier == "quick" else "all 1-step programs of alphabet 'full' except keep_dim variants, min/max/prod, iselect and multiply/divide/power between "
           "actions, and the 2-step programs core x {map f, map l1, map l2, add 2}")
        + "; oracles: shared name table, Cascade.from_actions([P, Q]) has unique names, serialise / graph2job consistent, no action changed while the other "
        "program is built. Non-trivial = both programs build and differ.",
        chk.cases, len(chk.nontrivial), time.time() - chk.t0, chk.samples, chk.take_failures())

    # ---- 3. static argument values ---------------------------------------------------------------------------------------
    chk.reset_counts()
    vals = _static_values()
    shape = (("x", 2),)
    env = Env(chk, shape, True, {"kind": "static-args"})
    src = env.src("A")
    for (ta, va), how in itertools.product(vals, ("arg", "kwarg", "arg-first")):
        case = {"kind": "static-args", "shape": [list(s) for s in shape], "value": ta, "passed_as": how}
        chk.cases += 1
        pay = K.Payload(f, ["input0", va]) if how == "arg" else (K.Payload(f, kwargs={"k": va}) if how == "kwarg" else K.Payload(f, [va]))
        try:
            act = env.reg(f"map f {how} {ta}", src.map(pay))
        except Exception:  # noqa
            continue
        chk.nontrivial.add(json.dumps(case))
        if len(chk.samples) < 2:
            chk.samples.append(case)
        chk.file_names([act], case)
        again = src.map(K.Payload(f, ["input0", va]) if how == "arg" else (K.Payload(f, kwargs={"k": va}) if how == "kwarg" else K.Payload(f, [va])))
        if _names(again) != _names(act):
            chk.failure("C14/rebuild-same-names", "other", case, "same map built twice gives different names", CL_DET)
    out.add_bounded(
        "static argument values", "exhaustive enumeration",
        f"source(x:2).map(Payload(f, ...)) for each of {len(vals)} static values (ints, float, str, tuple, list, None, bool, dicts, small and "
        "2000-element numpy arrays, a string containing quotes) passed as trailing positional, as leading positional and as keyword argument; all nodes share "
        "the name table of the run (so every pair of values is compared); each map is built twice. Non-trivial = the map built.",
        chk.cases, len(chk.nontrivial), time.time() - chk.t0, chk.samples, chk.take_failures())

    # ---- 4. seeded random programs beyond the bound ----------------------------------------------------------------------
    chk.reset_counts()
    rng = random.Random(seed)
    n_rand = 60 if tier == "quick" else 800
    shapes = [(("x", 3),), (("x", 2), ("y", 3)), (("e", 1), ("x", 2)), (("x", 4), ("y", 2)), (("x", 2), ("y", 2), ("z", 2))]
    for _ in range(n_rand):
        shape = rng.choice(shapes)
        depth = rng.choice((3, 4))
        prog: tuple = ()
        for _d in range(depth):
            scratch = Env(chk, shape, False)
            try:
                cur = scratch.run(prog)
            except OpRaised:
                break
            opts = gen_steps(cur, "full", tier)
            prog = prog + (rng.choice(opts),)
        chk.program(shape, prog, lower=False)
    out.add_bounded(
        "random fluent programs", "seeded random",
        f"{n_rand} programs of 3-4 steps, each step uniform from alphabet 'full' of the current action, on 5 source shapes (up to 3 dims), seed {seed}; "
        "same oracles as the exhaustive space. Non-trivial = distinct program all of whose operations returned.",
        chk.cases, len(chk.nontrivial), time.time() - chk.t0, chk.samples, chk.take_failures())


def replay_case(inputs, tier="quick"):
    """re-run the case(s) recorded in a failure's `inputs` on the current tree; returns the failures found"""
    chk = Checker(_K(), tier)
    cases = inputs.get("cases") or [inputs]
    for c in cases:
        shape = tuple((d, int(s)) for d, s in c.get("shape", []))
        tup = lambda ss: tuple(tuple(x) for x in ss)  # noqa: E731
        if c.get("kind") == "pair":
            chk.pair(shape, tup(c["steps"]), tup(c["steps2"]))
        elif c.get("kind") == "program":
            chk.program(shape, tup(c["steps"]), lower=True)
        elif c.get("kind") == "static-args":
            val = dict(_static_values())[c["value"]]
            how = c["passed_as"]
            K = chk.K
            pay = K.Payload(f, ["input0", val]) if how == "arg" else (K.Payload(f, kwargs={"k": val}) if how == "kwarg" else K.Payload(f, [val]))
            env = Env(chk, shape, True, c)
            chk.file_names([env.src("A").map(pay)], c)
    return chk.take_failures()
