"""Bounded stand-in for C16 (the preschedule is a faithful structural summary of the job DAG): labelled bounded, never proof.

Every job DAG up to a small bound is built with the real cascade.low.core classes, handed to the real
cascade.scheduler.graph.precompute, and every field of the returned Preschedule is compared with an independent
reference computed with networkx from the case description only (never from cascade code):

  components       weakly connected components (as sets; sizes non-increasing; every task in exactly one)
  sources          per component: exactly the tasks of the component that have no input edge
  edge_o           dataset -> set of consuming tasks          (missing key == empty set; property is silent)
  edge_i           task    -> set of datasets it consumes     (missing key == empty set; property is silent)
  task_o           task    -> set of its datasets
  depth            number of nodes on the longest path of the component (= number of topological layers of enrich())
  value[v]         component.depth - (shortest distance from v to any sink of the component)
  distance[a][b]   0 if a == b, else min over c reachable from both (a and b count, at distance 0) of
                   max(dist(a, c), dist(b, c)), component.depth if there is no such c

Not demanded (property silent): order of nodes/sources inside a component, order of equally heavy components, extra
rows/columns in the distance matrix, keys with empty sets, container types.

FOUND DEFECTS
  none on the current /repo tree (pure-python fallback of nearest_common_descendant; `coptrs` is not installed).
"""
import itertools
import json
import logging
import math
import os
import random
import select
import signal
import sys
import threading
import time
import traceback
import warnings

import networkx as nx

CL_PART = ("The pre-computed schedule partitions the job's tasks into exactly its weakly connected components "
           "(every task in one component, no edge between components, heaviest component first)")
CL_SRC = "lists as sources exactly the tasks without inputs"
CL_EDGE = "records for every task its consumers, inputs and outputs exactly as the job's edges state"
CL_VAL = "Within a component a task's value equals the component depth minus its distance to the nearest sink"
CL_DIST = ("the distance between two tasks is the smallest d such that some task is reachable from both within d steps "
           "(the depth if there is none)")

NAME_POOL = ["n3", "a", "zz", "m1", "b0", "t", "k9", "c", "q", "y2", "e", "h5", "w", "d7", "r", "g"]
MAX_REPORTED = 20


# --------------------------------------------------------------------------------------------------
# case description:  {"tasks": [[name, n_outputs], ...]   (in dict insertion order),
#                     "edges": [[src, out, dst, kind, key], ...]  (in list order; kind "ps" -> key int, "kw" -> key str)}
class _Builder:
    def __init__(self):
        from cascade.low.core import DatasetId, JobInstance, Task2TaskEdge, TaskDefinition, TaskInstance
        self.DatasetId, self.JobInstance, self.Task2TaskEdge = DatasetId, JobInstance, Task2TaskEdge
        self.TaskDefinition, self.TaskInstance = TaskDefinition, TaskInstance

    def task(self, n_out):
        d = self.TaskDefinition(entrypoint="builtins.int", environment=[], input_schema={},
                                output_schema={str(i): "int" for i in range(n_out)})
        return self.TaskInstance(definition=d, static_input_kw={}, static_input_ps={})

    def job(self, case):
        tasks = {name: self.task(n_out) for name, n_out in case["tasks"]}
        edges = []
        for src, out, dst, kind, key in case["edges"]:
            edges.append(self.Task2TaskEdge(source=self.DatasetId(src, str(out)), sink_task=dst,
                                            sink_input_kw=key if kind == "kw" else None,
                                            sink_input_ps=key if kind == "ps" else None))
        return self.JobInstance(tasks=tasks, edges=edges)


def _mk_case(names, outs, raw_edges, order=None, edge_rng=None):
    """names[i], outs[i] for node i; raw_edges = [(i, out, j, kind)]; every edge gets its own input slot of the sink"""
    idx = list(range(len(names))) if order is None else list(order)
    raw = list(raw_edges)
    if edge_rng is not None:
        edge_rng.shuffle(raw)
    nps, nkw, edges = {}, {}, []
    for i, o, j, kind in raw:
        if kind == "ps":
            key = nps.get(j, 0)
            nps[j] = key + 1
        else:
            key = "k%d" % nkw.get(j, 0)
            nkw[j] = nkw.get(j, 0) + 1
        edges.append([names[i], o, names[j], kind, key])
    return {"tasks": [[names[i], outs[i]] for i in idx], "edges": edges}


# --------------------------------------------------------------------------------------------------
def _reference(case):
    g = nx.DiGraph()
    g.add_nodes_from(name for name, _ in case["tasks"])
    cons, inps = {}, {}
    for src, out, dst, _kind, _key in case["edges"]:
        g.add_edge(src, dst)
        cons.setdefault((src, str(out)), set()).add(dst)
        inps.setdefault(dst, set()).add((src, str(out)))
    comps = []
    for nodes in nx.weakly_connected_components(g):
        sub = g.subgraph(nodes)
        depth = nx.dag_longest_path_length(sub) + 1
        dist = dict(nx.all_pairs_shortest_path_length(sub))  # dist[a][c] only for c reachable from a (a itself: 0)
        sinks = [v for v in nodes if sub.out_degree(v) == 0]
        value = {v: depth - min(dist[v][s] for s in sinks if s in dist[v]) for v in nodes}
        dm = {}
        for a in nodes:
            dm[a] = {}
            for b in nodes:
                if a == b:
                    dm[a][b] = 0
                    continue
                common = [max(dist[a][c], dist[b][c]) for c in dist[a] if c in dist[b]]
                dm[a][b] = min(common) if common else depth
        comps.append({"nodes": frozenset(nodes), "sources": {v for v in nodes if g.in_degree(v) == 0}, "depth": depth,
                      "value": value, "dm": dm})
    return {"comps": comps, "cons": cons, "inps": inps,
            "outs": {name: {(name, str(i)) for i in range(n)} for name, n in case["tasks"]}}


def _ds(x):
    return (x.task, x.output)


def _check(case, ref, pre):
    """yields (obligation, observed, clause)"""
    tasks = [n for n, _ in case["tasks"]]
    # ---- partition
    got = [list(c.nodes) for c in pre.components]
    flat = [t for nodes in got for t in nodes]
    if sorted(flat) != sorted(tasks):
        yield ("C16/partition-covers-each-task-once", "tasks over all components: %r, job tasks: %r" % (sorted(flat), sorted(tasks)), CL_PART)
    exp_sets = sorted(sorted(c["nodes"]) for c in ref["comps"])
    got_sets = sorted(sorted(set(nodes)) for nodes in got)
    if got_sets != exp_sets:
        yield ("C16/components-are-weak-components", "components %r, expected %r" % (got_sets, exp_sets), CL_PART)
    sizes = [len(nodes) for nodes in got]
    if any(sizes[i] < sizes[i + 1] for i in range(len(sizes) - 1)):
        yield ("C16/heaviest-first", "component sizes in order: %r" % sizes, CL_PART)
    # ---- per component
    by_nodes = {c["nodes"]: c for c in ref["comps"]}
    for comp in pre.components:
        r = by_nodes.get(frozenset(comp.nodes))
        if r is None:
            continue  # already reported as a partition failure
        tag = sorted(r["nodes"])
        if set(comp.sources) != r["sources"]:
            yield ("C16/sources", "component %r: sources %r, expected %r" % (tag, sorted(comp.sources), sorted(r["sources"])), CL_SRC)
        if comp.depth != r["depth"]:
            yield ("C16/depth", "component %r: depth %r, number of topological layers %r" % (tag, comp.depth, r["depth"]), CL_VAL)
        sink_dist = {v: r["depth"] - r["value"][v] for v in r["nodes"]}
        bad = {v: comp.value.get(v) for v in r["nodes"] if comp.value.get(v) != comp.depth - sink_dist[v]}
        if bad:
            yield ("C16/value", "component %r depth %r: value %r, distance to nearest sink %r"
                   % (tag, comp.depth, bad, {v: sink_dist[v] for v in bad}), CL_VAL)
        badd = []
        for a in r["nodes"]:
            row = comp.distance_matrix.get(a)
            for b in r["nodes"]:
                exp = r["dm"][a][b]
                if exp == r["depth"] and a != b:
                    exp = comp.depth  # "the depth if there is none": the depth the component itself reports
                obs = row.get(b) if row is not None else None
                if obs != exp:
                    badd.append((a, b, obs, exp))
        if badd:
            yield ("C16/distance", "component %r: (a, b, observed, expected) %r" % (tag, badd[:6]), CL_DIST)
    # ---- edges
    exp_keys = {d for o in ref["outs"].values() for d in o}
    bad = []
    for d in exp_keys:
        obs = set(pre.edge_o.get(_mk_ds(pre, d), ()))
        if obs != ref["cons"].get(d, set()):
            bad.append((d, sorted(obs), sorted(ref["cons"].get(d, set()))))
    for k, v in list(pre.edge_o.items()):
        if _ds(k) not in exp_keys and v:
            bad.append((_ds(k), sorted(v), []))
    if bad:
        yield ("C16/edge_o-consumers", "(dataset, observed, expected) %r" % bad[:6], CL_EDGE)
    bad = []
    for t in tasks:
        obs = {_ds(x) for x in pre.edge_i.get(t, ())}
        if obs != ref["inps"].get(t, set()):
            bad.append((t, sorted(obs), sorted(ref["inps"].get(t, set()))))
    for k, v in list(pre.edge_i.items()):
        if k not in ref["outs"] and v:
            bad.append((k, sorted(_ds(x) for x in v), []))
    if bad:
        yield ("C16/edge_i-inputs", "(task, observed, expected) %r" % bad[:6], CL_EDGE)
    bad = []
    for t in tasks:
        obs = pre.task_o.get(t)
        obs = None if obs is None else {_ds(x) for x in obs}
        if obs != ref["outs"][t]:
            bad.append((t, None if obs is None else sorted(obs), sorted(ref["outs"][t])))
    for k, v in list(pre.task_o.items()):
        if k not in ref["outs"] and v:
            bad.append((k, sorted(_ds(x) for x in v), []))
    if bad:
        yield ("C16/task_o-outputs", "(task, observed, expected) %r" % bad[:6], CL_EDGE)


_DS_CLS = []


def _mk_ds(pre, d):
    if not _DS_CLS:
        from cascade.low.core import DatasetId
        _DS_CLS.append(DatasetId)
    return _DS_CLS[0](d[0], d[1])


# --------------------------------------------------------------------------------------------------
# enumerated spaces: generators of (case, is_sample); deterministic, so that every worker sees the same numbering
def _names(n, k):
    """a labelling of n nodes that depends on the case counter (k-th permutation of the first n pool names, cyclically)"""
    pool = NAME_POOL[:n]
    k %= math.factorial(n) if n else 1
    res = []
    for i in range(n, 0, -1):
        f = math.factorial(i - 1)
        res.append(pool.pop(k // f))
        k %= f
    return res


def _gen_shapes(n_max):
    """every DAG on n <= n_max nodes (every subset of the pairs i<j as edges i->j), single-output tasks, one edge per pair"""
    k = 0
    for n in range(0, n_max + 1):
        pairs = [(i, j) for i in range(n) for j in range(i + 1, n)]
        for mask in range(1 << len(pairs)):
            names = _names(n, k)
            raw = [(i, 0, j, "kw" if (k + i + j) % 3 == 0 else "ps") for b, (i, j) in enumerate(pairs) if mask >> b & 1]
            order = sorted(range(n), key=lambda i: names[i])  # dict insertion order = by name, unrelated to topological order
            yield _mk_case(names, [1] * n, raw[::-1] if k % 2 else raw, order), (n == n_max and mask in (5, len(pairs) * 7 + 3))
            k += 1


def _pair_options(n_out, kinds):
    """all multisets of <= 2 edges between an ordered pair of tasks; an edge = (source output, kind)"""
    single = [(o, kd) for o in range(n_out) for kd in kinds]
    opts = [()]
    opts += [(e,) for e in single]
    opts += list(itertools.combinations_with_replacement(single, 2))
    return opts


def _gen_decorated(n, kinds_full):
    """n tasks with 1 or 2 outputs each; between each pair i<j zero, one or two edges; each edge picks its source output;
    kinds_full: each edge is also positional or keyword (all combinations), else the kind alternates"""
    pairs = [(i, j) for i in range(n) for j in range(i + 1, n)]
    k = 0
    for outs in itertools.product((1, 2), repeat=n):
        per_pair = [_pair_options(outs[i], ("ps", "kw") if kinds_full else ("ps",)) for i, _ in pairs]
        for choice in itertools.product(*per_pair):
            raw = []
            for (i, j), es in zip(pairs, choice):
                for m, (o, kd) in enumerate(es):
                    raw.append((i, o, j, kd if kinds_full else ("ps", "kw")[(m + k) % 2]))
            names = _names(n, k)
            order = sorted(range(n), key=lambda i: names[i])
            yield (_mk_case(names, list(outs), raw[::-1] if k % 2 else raw, order),
                   (len(raw) == 4 and sum(outs) == n + 2 and k % 97 == 0))
            k += 1


def _gen_random(seed, count, n_lo, n_hi):
    rng = random.Random(seed)
    for k in range(count):
        n = rng.randint(n_lo, n_hi)
        names = rng.sample(NAME_POOL, n)
        outs = [rng.choice((1, 1, 2)) for _ in range(n)]
        p = rng.choice((0.08, 0.15, 0.3, 0.5))
        raw = []
        for i in range(n):
            for j in range(i + 1, n):
                if rng.random() < p:
                    for _ in range(rng.choice((1, 1, 1, 2, 3))):
                        raw.append((i, rng.randrange(outs[i]), j, rng.choice(("ps", "kw"))))
        order = list(range(n))
        rng.shuffle(order)
        yield _mk_case(names, outs, raw, order, edge_rng=rng), (k < 1)


_GENS = {"shapes": _gen_shapes, "decorated": _gen_decorated, "random": _gen_random}


# --------------------------------------------------------------------------------------------------
# execution: the cases of a space are dealt round-robin to a few forked workers.  A worker guards every call of
# precompute with a watchdog thread (CPU seconds / wall seconds / resident memory of the call): a broken precompute may
# loop forever while allocating (e.g. `while remaining:` in enrich when the components are wrong), which must become a
# reported failure, not a hung or swapped-out check.  After such a kill the parent restarts the worker behind the case.
# A call of precompute on <= 16 tasks takes milliseconds and allocates kilobytes.  The limits are deliberately huge: on a
# loaded (virtual) machine whole-process stalls of 3-5 s, accounted as CPU time, were observed on correct code.
HANG_RSS_BYTES = 256 << 20            # resident memory gained during ONE call (independent of machine load)
HANG_CPU_S, HANG_CPUWALL_S = 15.0, 30.0  # ... or this much CPU and wall time in one call
HANG_WALL_S = 150.0                   # ... or this much wall time (deadlock)
MAX_HANGS = 3                         # memory-type hangs tolerated (worker restarted behind the case) per run(); then, or after
                                      # any other kind of hang, the remaining spaces are skipped
CL_TERM = "The pre-computed schedule partitions the job's tasks into exactly its weakly connected components (no schedule was produced at all)"


def _rss():
    try:
        with open("/proc/self/statm") as f:
            return int(f.read().split()[1]) * os.sysconf("SC_PAGE_SIZE")
    except Exception:  # noqa
        return 0


class _Acc:
    """results of one worker / merged results of a space"""

    def __init__(self):
        self.cases = self.nontrivial = 0
        self.samples, self.first, self.counts = [], {}, {}  # samples: [k, case]; first: key -> [k, failure]; counts: key -> n
        self.truncated = False

    def fail(self, k, obligation, case, observed, clause, cls="other"):
        key = obligation + "|" + cls
        self.counts[key] = self.counts.get(key, 0) + 1
        if key not in self.first or k < self.first[key][0]:
            self.first[key] = [k, {"obligation": obligation, "inputs": case, "observed": observed[:600], "clause": clause, "class": cls}]

    def dump(self):
        return {"cases": self.cases, "nontrivial": self.nontrivial, "samples": self.samples, "first": self.first,
                "counts": self.counts, "truncated": self.truncated}

    def merge(self, d):
        self.cases += d["cases"]
        self.nontrivial += d["nontrivial"]
        self.samples += d["samples"]
        self.truncated = self.truncated or d["truncated"]
        for key, n in d["counts"].items():
            self.counts[key] = self.counts.get(key, 0) + n
        for key, (k, f) in d["first"].items():
            if key not in self.first or k < self.first[key][0]:
                self.first[key] = [k, f]


def _work(spec, residue, nproc, skip, deadline, guard):
    """runs the cases k >= skip, k % nproc == residue of the space `spec`; guard(k, case) / guard(None, None) bracket precompute"""
    from cascade.scheduler.graph import precompute
    builder, acc = _Builder(), _Acc()
    n_run = 0
    for k, (case, is_sample) in enumerate(_GENS[spec[0]](*spec[1:])):
        if k < skip or k % nproc != residue:
            continue
        if (n_run & 31) == 0 and time.time() > deadline:
            acc.truncated = True
            break
        n_run += 1
        acc.cases += 1
        if case["edges"]:
            acc.nontrivial += 1
        if is_sample and len(acc.samples) < 3:
            acc.samples.append([k, case])
        try:
            ref = _reference(case)
        except Exception as e:  # noqa -- harness bug, make it loud
            acc.fail(k, "C16/harness-reference-crashed", case, repr(e), "", "harness")
            continue
        try:
            job = builder.job(case)
            guard(k, case, acc)
            try:
                pre = precompute(job)
            finally:
                guard(None, None, acc)
        except Exception as e:  # noqa
            acc.fail(k, "C16/precompute-raises", case, "precompute raised %r" % (e,), CL_TERM)
            continue
        try:
            for obligation, observed, clause in _check(case, ref, pre):
                acc.fail(k, obligation, case, observed, clause)
        except Exception as e:  # noqa -- a Preschedule so malformed that it cannot even be read
            acc.fail(k, "C16/preschedule-unreadable", case, "reading the Preschedule raised %r" % (e,), CL_EDGE)
    return acc


def _child(spec, residue, nproc, skip, deadline, wfd):
    lock = threading.Lock()
    current = [None]  # (k, case, acc, cpu0, wall0, rss0)

    def send(msg):
        data = json.dumps(msg).encode()
        while data:
            data = data[os.write(wfd, data):]

    def guard(k, case, acc):
        current[0] = None if k is None else (k, case, acc, time.process_time(), time.time(), _rss())

    def watchdog():
        while True:
            time.sleep(0.02)
            st = current[0]
            if st is None:
                continue
            k, case, acc, cpu0, wall0, rss0 = st
            cpu, wall, mem = time.process_time() - cpu0, time.time() - wall0, _rss() - rss0
            if mem > HANG_RSS_BYTES or (cpu > HANG_CPU_S and wall > HANG_CPUWALL_S) or wall > HANG_WALL_S:
                if current[0] is not st:
                    continue  # the call returned meanwhile
                lock.acquire()  # never released: the process ends here
                d = acc.dump()
                where = []
                try:
                    me = threading.get_ident()
                    for tid, fr in sys._current_frames().items():
                        if tid != me:
                            fs = traceback.extract_stack(fr)[-3:]
                            where.append(" < ".join("%s:%d %s" % (os.path.basename(x.filename), x.lineno, x.name) for x in reversed(fs)))
                except Exception:  # noqa
                    pass
                d["hang_slow"] = not mem > HANG_RSS_BYTES
                d["hang"] = [k, case, "precompute did not return: %.1f s CPU, %.1f s wall, +%d MB resident when stopped; threads at: %s"
                             % (cpu, wall, mem >> 20, " | ".join(where))]
                try:
                    send(d)
                finally:
                    os._exit(0)

    try:
        threading.Thread(target=watchdog, daemon=True).start()
        acc = _work(spec, residue, nproc, skip, deadline, guard)
        with lock:
            d = acc.dump()
            d["done"] = True
            send(d)
    except BaseException:  # noqa
        try:
            with lock:
                send({"error": traceback.format_exc()[-1500:]})
        except BaseException:  # noqa
            pass
    finally:
        os._exit(0)


def _run_space(out, spec, name, driver, bound, deadline, nproc, state):
    t0 = time.time()
    total = _Acc()
    notes = []
    if state.get("abort"):
        out.add_bounded(name, driver, bound + " -- SKIPPED: precompute did not terminate in an earlier space of this run", 0, 0, 0.0, [], [])
        return
    todo = [(r, 0) for r in range(nproc)]
    live = {}  # rfd -> [pid, residue, bytearray]
    inline = False
    while todo or live:
        while todo:
            residue, skip = todo.pop()
            fds = ()
            try:
                fds = os.pipe()
                rfd, wfd = fds
                with warnings.catch_warnings():
                    warnings.simplefilter("ignore")  # 3.12 warns about fork() when the host process has other threads
                    pid = os.fork()
            except OSError as e:
                for fd in fds:
                    os.close(fd)
                note = "fork failed (%r): cases run in-process without the non-termination guard" % (e,)
                if note not in notes:
                    notes.append(note)
                inline = True
                total.merge(_work(spec, residue, nproc, skip, deadline, lambda k, case, acc: None).dump())
                continue
            if pid == 0:
                os.close(rfd)
                _child(spec, residue, nproc, skip, deadline, wfd)  # never returns
            os.close(wfd)
            live[rfd] = [pid, residue, bytearray()]
        if not live:
            break
        hard = deadline + HANG_WALL_S + 30.0
        ready, _, _ = select.select(list(live), [], [], max(0.1, min(5.0, hard - time.time())))
        if not ready and time.time() > hard:
            for rfd, (pid, residue, _buf) in list(live.items()):
                try:
                    os.kill(pid, signal.SIGKILL)
                except OSError:
                    pass
                os.waitpid(pid, 0)
                os.close(rfd)
                total.truncated = True
                notes.append("worker %d was silent past the deadline and was killed" % residue)
            live.clear()
            break
        for rfd in ready:
            chunk = os.read(rfd, 1 << 16)
            if chunk:
                live[rfd][2] += chunk
                continue
            pid, residue, buf = live.pop(rfd)
            os.close(rfd)
            os.waitpid(pid, 0)
            try:
                d = json.loads(bytes(buf).decode())
            except Exception:  # noqa
                d = {"error": "worker ended without a result (killed?)"}
            if "error" in d:
                total.truncated = True
                total.fail(-1, "C16/harness-worker-died", {"space": list(spec), "worker": residue}, d["error"], "", "harness")
                continue
            total.merge(d)
            if "hang" in d:
                k, case, observed = d["hang"]
                state["hangs"] = state.get("hangs", 0) + 1
                total.fail(k, "C16/precompute-terminates", case, observed, CL_TERM)
                if d.get("hang_slow"):
                    state["abort"] = True
                    total.truncated = True
                    note = "a call of precompute ran into the time limit: no restart, the remaining spaces are skipped"
                    if note not in notes:
                        notes.append(note)
                elif state["hangs"] < MAX_HANGS:
                    todo.append((residue, k + 1))
                else:
                    state["abort"] = True
                    total.truncated = True
                    note = "no restart after %d non-terminating cases in this run, the remaining spaces are skipped" % MAX_HANGS
                    if note not in notes:
                        notes.append(note)
    # ---- report
    failures = []
    for key in sorted(total.first, key=lambda q: (total.first[q][0], q)):
        k, f = total.first[key]
        n = total.counts.get(key, 1)
        if n > 1:
            f["observed"] += " [%d cases failed this obligation; the first one is shown]" % n
        if len(failures) < MAX_REPORTED:
            failures.append(f)
    if total.truncated:
        bound += " -- TRUNCATED (wall-clock budget or repeated non-termination) after %d cases" % total.cases
    bound += "; non-trivial = the job has at least one edge"
    if notes:
        bound += "; notes: " + "; ".join(notes)
    samples = [c for _k, c in sorted(total.samples, key=lambda s: s[0])[:3]]
    if not inline:
        driver += ", %d forked workers" % nproc
    out.add_bounded(name, driver, bound, total.cases, total.nontrivial, time.time() - t0, samples, failures)


# --------------------------------------------------------------------------------------------------
def run(out, tier, seed):
    import cascade.scheduler.graph  # noqa: F401 -- imported before forking
    thorough = tier == "thorough"
    t_start = time.time()
    budget = 780.0 if thorough else 45.0  # seconds of wall clock after which the spaces stop early (and say so)
    nproc = max(1, min(4, (os.cpu_count() or 1)))
    state = {"hangs": 0}
    lg = logging.getLogger("cascade.scheduler.graph")
    old_level = lg.level
    lg.setLevel(logging.ERROR)  # "coptrs not found" is logged once per component
    try:
        n_shapes = 6 if thorough else 5
        n_hi = 16 if thorough else 10
        count = 40000 if thorough else 1500
        d3_full = (("decorated", 3, True), "multi-edges and multi-output tasks, 3 tasks", "exhaustive enumeration",
                   "3 tasks, each with 1 or 2 outputs; between every pair i<j zero, one or two edges i->j; every edge picks any "
                   "output of its source and is positional or keyword (all combinations, as multisets)")
        spaces = [(("shapes", n_shapes), "job DAG shapes", "exhaustive enumeration",
                   "every DAG on 0..%d single-output tasks: every subset of the pairs i<j taken as edges i->j (all DAGs up to "
                   "renaming), one edge per pair; task names / dict order / edge order / positional-or-keyword varied with the "
                   "case counter" % n_shapes, 0.30)]
        if thorough:
            spaces.append(d3_full + (0.40,))
            spaces.append((("decorated", 4, False), "multi-edges and multi-output tasks, 4 tasks", "exhaustive enumeration",
                           "4 tasks, each with 1 or 2 outputs; between every pair i<j zero, one or two edges i->j; every edge picks "
                           "any output of its source (all combinations, as multisets); positional/keyword alternates", 0.85))
        else:
            spaces.append((("decorated", 3, False), "multi-edges and multi-output tasks, 3 tasks, alternating kinds",
                           "exhaustive enumeration",
                           "3 tasks, each with 1 or 2 outputs; between every pair i<j zero, one or two edges i->j; every edge picks "
                           "any output of its source (all combinations, as multisets); positional/keyword alternates", 0.40))
        spaces.append((("random", seed, count, n_shapes + 1, n_hi), "larger random job DAGs", "seeded random",
                       "%d jobs from random.Random(seed=%d): %d..%d tasks with 1-2 outputs, edge density 0.08-0.5 over the pairs of a "
                       "random topological order, 1-3 parallel edges per chosen pair, random output / positional-or-keyword / names / "
                       "orders" % (count, seed, n_shapes + 1, n_hi), 1.0 if thorough else 0.60))
        if not thorough:
            spaces.append(d3_full + (1.0,))  # the big one last: on an overloaded machine it is the one that gets truncated
        for spec, name, driver, bound, frac in spaces:
            _run_space(out, spec, name, driver, bound, t_start + budget * frac, nproc, state)
    finally:
        lg.setLevel(old_level)
