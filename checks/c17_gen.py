"""Generates the C17 proof harnesses for every message class found in the REAL cascade.shm.api source on each run.

For each class C with ser/deser:   for EVERY field valuation m (no precondition):
    b = api.ser(m)  either raises - allowed only when m is outside the admitted domain D_C - or returns, and then
    api.deser(b) == m        (same type for the field-less command classes, whose instances have no __eq__)
D_C: int fields 0 <= n < 2**63, str fields ASCII with len < 2**32, enum fields any member.
"""
import ast

from pyvc.frontend import Frontend

API = "cascade.shm.api"


def message_classes(fe: Frontend):
    mi = fe.module(API)
    out = []
    cands = []
    for name, node in mi.classes.items():
        ci = fe.class_info(API, name)
        if "ser" in ci.methods and "deser" in ci.methods and "Protocol" not in ci.bases:
            cands.append(ci)
    # a class that other message classes derive from is an abstract base (EmptyCommand), never sent itself
    bases = {b for c in cands for b in c.bases}
    return [c for c in cands if c.name not in bases]


def domain_expr(ci, var="m"):
    conj = []
    for f, ty in ci.fields.items():
        if ty.kind == "int":
            conj.append(f"0 <= {var}.{f} and {var}.{f} < 2**63")
        elif ty.kind == "str":
            conj.append(f"isascii({var}.{f}) and len({var}.{f}) < 2**32")
    return " and ".join(conj) if conj else "True"


def harness_source(fe: Frontend) -> str:
    parts = ['PROPERTY = "C17"\n']
    for ci in message_classes(fe):
        has_eq = bool(ci.fields) or getattr(ci, "is_dataclass", False)
        post = "r == m" if has_eq else "type(r) is type(m)"
        parts.append(f'''
@harness("roundtrip-{ci.name}", module="{API}")
def _(m: {ci.name}):
    rejected = False
    r = m
    try:
        b = ser(m)
    except Exception:
        rejected = True   # "a value outside the admitted domain is rejected WHEN ENCODING"
    if not rejected:
        r = deser(b)      # decoding what was encoded must not raise: an exception here escapes the harness and fails it
    ensures(implies(rejected, not ({domain_expr(ci)})), tag="rejects-only-outside-domain", top=True)
    ensures(implies(not rejected, {post}), tag="decode-of-encode-is-identity", top=True)
''')
    return "".join(parts)
